package camelcase

import (
	"strings"
	"testing"
	"unicode/utf8"
)

// bounded stand-in for the losslessness clause of C19 (not yet discharged deductively) and a runtime check of
// Split's proved contract: every string of length <= 5 over an adversarial alphabet.
func TestProbe_SplitLossless(t *testing.T) {
	alphabet := []string{"a", "B", "3", "_", " ", "é", "Σ", "\xff", "-"}
	var gen func(prefix string, n int)
	count := 0
	gen = func(prefix string, n int) {
		check := func(s string) {
			count++
			var words []string
			func() {
				defer func() {
					if r := recover(); r != nil {
						t.Fatalf("Split(%q) panics: %v", s, r)
					}
				}()
				words = Split(s)
			}()
			if !utf8.ValidString(s) {
				if len(words) != 1 || words[0] != s {
					t.Fatalf("Split(%q) = %q, want the input as one word (invalid UTF-8)", s, words)
				}
				return
			}
			for _, w := range words {
				if w == "" {
					t.Fatalf("Split(%q) = %q contains an empty word", s, words)
				}
			}
			if strings.Join(words, "") != s {
				t.Fatalf("Split(%q) = %q: concatenation differs from the input", s, words)
			}
		}
		check(prefix)
		if n == 0 {
			return
		}
		for _, a := range alphabet {
			gen(prefix+a, n-1)
		}
	}
	gen("", 5)
	t.Logf("checked %d strings", count)
}

func TestProbe_ConvertersTotal(t *testing.T) {
	fs := map[string]func(string) string{"LowerSnakeCase": LowerSnakeCase, "UpperSnakeCase": UpperSnakeCase, "LowerKebabCase": LowerKebabCase,
		"UpperKebabCase": UpperKebabCase, "LowerCamelCase": LowerCamelCase, "UpperCamelCase": UpperCamelCase}
	alphabet := []string{"a", "B", "3", "_", " ", "é", "\xff", "ID", "-"}
	var gen func(prefix string, n int)
	gen = func(prefix string, n int) {
		for name, f := range fs {
			func() {
				defer func() {
					if r := recover(); r != nil {
						t.Fatalf("%s(%q) panics: %v", name, prefix, r)
					}
				}()
				a, b := f(prefix), f(prefix)
				if a != b {
					t.Fatalf("%s(%q) is not a function of its input: %q vs %q", name, prefix, a, b)
				}
			}()
		}
		if n == 0 {
			return
		}
		for _, a := range alphabet {
			gen(prefix+a, n-1)
		}
	}
	gen("", 4)
}
