package snippet

import (
	"context"
	"strings"
	"testing"

	"github.com/octohelm/gengo/pkg/gengo/internal"
)

func renderProbe(s Snippet) (out string, panicked bool) {
	defer func() {
		if recover() != nil {
			panicked = true
		}
	}()
	var b strings.Builder
	for c := range s.Frag(internal.DumperContext.Inject(context.Background(), internal.NewDumper(nil))) {
		b.WriteString(c)
	}
	return b.String(), false
}

func isName(c rune) bool {
	return (c >= 'A' && c <= 'Z') || (c >= 'a' && c <= 'z') || (c >= '0' && c <= '9') || c == '_'
}

// independent reference implementation of the statement of C09 for T().
func refTmpl(format string, args map[string]string, bound map[string]bool) (string, bool) {
	R := []rune(strings.TrimLeft(format, "\n"))
	var b strings.Builder
	for i := 0; i < len(R); {
		if R[i] != '@' {
			b.WriteRune(R[i])
			i++
			continue
		}
		j := i + 1
		for j < len(R) && isName(R[j]) {
			j++
		}
		if j == i+1 {
			b.WriteRune('@')
			i++
			continue
		}
		name := string(R[i+1 : j])
		if !bound[name] {
			return "", true
		}
		b.WriteString(args[name])
		if j < len(R) && R[j] == '\'' {
			j++
		}
		i = j
	}
	return b.String(), false
}

func TestProbe_TemplateFaithful(t *testing.T) {
	alphabet := []string{"a", "_", "1", "@", "'", "%", " ", "\n", "é", "x"}
	bindings := []struct {
		name string
		val  Snippet
		text string
	}{{"a", Block("X"), "X"}, {"x", Block(""), ""}, {"a1", Block("@a'"), "@a'"}, {"_", nil, ""}}
	args := map[string]string{}
	bound := map[string]bool{}
	var targs []TArg
	for _, b := range bindings {
		args[b.name], bound[b.name] = b.text, true
		targs = append(targs, Arg(b.name, b.val))
	}
	n := 0
	var gen func(prefix string, k int)
	gen = func(prefix string, k int) {
		n++
		got, gp := renderProbe(T(prefix, targs...))
		want, wp := refTmpl(prefix, args, bound)
		if prefix != "" && (gp != wp || (!gp && got != want)) {
			t.Fatalf("T(%q): got %q (panic=%v), want %q (panic=%v)", prefix, got, gp, want, wp)
		}
		if k == 0 {
			return
		}
		for _, a := range alphabet {
			gen(prefix+a, k-1)
		}
	}
	gen("", 5)
	t.Logf("checked %d formats", n)
}

func TestProbe_SprintfVerbs(t *testing.T) {
	cases := []struct {
		f     string
		a     []any
		want  string
		panic bool
	}{
		{"100%% ok", nil, "100% ok", false}, {"%%", nil, "%", false}, {"a%vb", []any{1}, "a1b", false}, {"%v%%%v", []any{1, "x"}, `1%"x"`, false},
		{"%v", nil, "", true}, {"%d", []any{1}, "", true}, {"x%", nil, "", true}, {"%v", []any{Block("S")}, "S", false}, {"%T", []any{Block("S")}, "S", false},
		{"é%v'", []any{true}, "étrue'", false},
	}
	for _, c := range cases {
		got, p := renderProbe(Sprintf(c.f, c.a...))
		if p != c.panic || (!p && got != c.want) {
			t.Fatalf("Sprintf(%q, %v): got %q (panic=%v), want %q (panic=%v)", c.f, c.a, got, p, c.want, c.panic)
		}
	}
}

func TestProbe_CommentDirectiveSnippets(t *testing.T) {
	if got, _ := renderProbe(Comment("a\n\nb")); got != "// a\n// \n// b" {
		t.Fatalf("Comment: %q", got)
	}
	if got, _ := renderProbe(Comment("")); got != "" {
		t.Fatalf("Comment(\"\"): %q", got)
	}
	if got, _ := renderProbe(GoDirective("build", "", "x", "", "y")); got != "//go:build x y" {
		t.Fatalf("GoDirective: %q", got)
	}
	s := Snippets(func(yield func(Snippet) bool) { _ = yield(nil) && yield(Block("a")) && yield(Block("")) && yield(Block("b")) })
	if got, p := renderProbe(s); p || got != "ab" {
		t.Fatalf("Snippets: %q panic=%v", got, p)
	}
}

// TestKnown_template_bom reproduces the recorded known finding: a format starting with U+FEFF loses it.
func TestKnown_template_bom(t *testing.T) {
	if got, _ := renderProbe(T("\ufeffx")); got != "\ufeffx" {
		t.Fatalf("T(%q) renders %q: the leading U+FEFF is dropped", "\ufeffx", got)
	}
}
