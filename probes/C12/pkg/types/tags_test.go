package types

import (
	"reflect"
	"testing"
)

// runtime check of ExtractCommentTags against its executable specification on all line lists of length <= 3.
func TestProbe_ExtractCommentTags(t *testing.T) {
	lines := []string{"", " ", "+a", "+a=1", "@a 2", " +b=x=y ", "text", "+", "a+b", "+k=\xff"}
	n := 0
	var rec func(cur []string, k int)
	rec = func(cur []string, k int) {
		n++
		tags, others := ExtractCommentTags(cur)
		ms := spec_markers(nil)
		want := spec_others(cur, ms, len(cur))
		if len(want) != len(others) || (len(want) > 0 && !reflect.DeepEqual(want, others)) {
			t.Fatalf("ExtractCommentTags(%q): other lines %q, spec %q", cur, others, want)
		}
		seen := map[string]bool{}
		for _, l := range cur {
			tl := trimSpaces(l)
			if spec_isTag(tl, ms) {
				seen[spec_key(tl[1:])] = true
			}
		}
		if len(seen) != len(tags) {
			t.Fatalf("ExtractCommentTags(%q): keys %v, spec keys %v", cur, tags, seen)
		}
		for k := range seen {
			if !reflect.DeepEqual(tags[k], spec_vals(cur, ms, k, len(cur))) {
				t.Fatalf("ExtractCommentTags(%q)[%q] = %q, spec %q", cur, k, tags[k], spec_vals(cur, ms, k, len(cur)))
			}
		}
		if k == 0 {
			return
		}
		for _, l := range lines {
			rec(append(append([]string{}, cur...), l), k-1)
		}
	}
	rec(nil, 3)
	t.Logf("checked %d line lists", n)
}

func trimSpaces(s string) string {
	for len(s) > 0 && s[0] == ' ' {
		s = s[1:]
	}
	for len(s) > 0 && s[len(s)-1] == ' ' {
		s = s[:len(s)-1]
	}
	return s
}
