package types

import (
	"fmt"
	"go/ast"
	"go/importer"
	"go/parser"
	"go/token"
	gotypes "go/types"
	"reflect"
	"strings"
	"testing"

	"golang.org/x/tools/go/packages"
)

// Bounded runtime check for C12 (attribution): generated layouts of consecutive declarations - struct fields and
// var specs; each with/without doc (plain or with a tag line), single-line or multi-line form, with/without a
// trailing comment; separated by nothing, a blank line, or a detached comment + blank line. Oracle: the generator
// itself knows which comment it attached to which declaration.
type probeDecl struct {
	doc      int // 0 none, 1 plain, 2 plain + tag line
	multi    bool
	trailing bool
	sep      int // before this declaration: 0 nothing, 1 blank line, 2 detached comment + blank line
}

func probeAllDecls() []probeDecl {
	var out []probeDecl
	for doc := 0; doc < 3; doc++ {
		for _, multi := range []bool{false, true} {
			for _, tr := range []bool{false, true} {
				for sep := 0; sep < 3; sep++ {
					out = append(out, probeDecl{doc, multi, tr, sep})
				}
			}
		}
	}
	return out
}

func probeRender(kind string, ds []probeDecl) string {
	var b strings.Builder
	b.WriteString("package demo\n\n")
	if kind == "field" {
		b.WriteString("type T struct {\n")
	}
	for i, d := range ds {
		name := fmt.Sprintf("N%d", i)
		switch d.sep {
		case 1:
			b.WriteString("\n")
		case 2:
			fmt.Fprintf(&b, "// detached before %s\n\n", name)
		}
		if d.doc >= 1 {
			fmt.Fprintf(&b, "// doc of %s\n", name)
		}
		if d.doc == 2 {
			fmt.Fprintf(&b, "// +tag=%s\n", name)
		}
		if kind == "field" {
			if d.multi {
				fmt.Fprintf(&b, "%s struct {\n\tX int\n}", name)
			} else {
				fmt.Fprintf(&b, "%s int", name)
			}
		} else {
			if d.multi {
				fmt.Fprintf(&b, "var %s = []int{\n\t1,\n}", name)
			} else {
				fmt.Fprintf(&b, "var %s int", name)
			}
		}
		if d.trailing {
			fmt.Fprintf(&b, " // trailing of %s", name)
		}
		b.WriteString("\n")
	}
	if kind == "field" {
		b.WriteString("}\n")
	}
	return b.String()
}

func probePkg(src string) (Package, error) {
	fset := token.NewFileSet()
	f, err := parser.ParseFile(fset, "demo.go", src, parser.ParseComments)
	if err != nil {
		return nil, err
	}
	info := &gotypes.Info{
		Types:      map[ast.Expr]gotypes.TypeAndValue{},
		Defs:       map[*ast.Ident]gotypes.Object{},
		Uses:       map[*ast.Ident]gotypes.Object{},
		Selections: map[*ast.SelectorExpr]*gotypes.Selection{},
		Implicits:  map[ast.Node]gotypes.Object{},
		Scopes:     map[ast.Node]*gotypes.Scope{},
	}
	tpkg, err := (&gotypes.Config{Importer: importer.Default()}).Check("example.com/demo", fset, []*ast.File{f}, info)
	if err != nil {
		return nil, err
	}
	return newPkg(&packages.Package{ID: "example.com/demo", Name: "demo", PkgPath: "example.com/demo", Fset: fset,
		Syntax: []*ast.File{f}, Types: tpkg, TypesInfo: info}, &Universe{fset: fset, pkgs: map[string]Package{}}), nil
}

func TestProbe_DocAndCommentAttribution(t *testing.T) {
	all := probeAllDecls()
	fails := 0
	layouts := 0
	for _, kind := range []string{"field", "var"} {
		for _, d0 := range all {
			for _, d1 := range all {
				ds := []probeDecl{d0, d1, {doc: 0, sep: 0}}
				src := probeRender(kind, ds)
				p, err := probePkg(src)
				if err != nil {
					t.Fatalf("generated source does not load: %v\n%s", err, src)
				}
				layouts++
				for i, d := range ds {
					name := fmt.Sprintf("N%d", i)
					var pos token.Pos
					if kind == "field" {
						s := p.Type("T").Type().(*gotypes.Named).Underlying().(*gotypes.Struct)
						pos = s.Field(i).Pos()
					} else {
						pos = p.Pkg().Scope().Lookup(name).Pos()
					}
					var wantDoc, wantComment []string
					wantTags := map[string][]string{}
					if d.doc >= 1 {
						wantDoc = []string{"doc of " + name}
					}
					if d.doc == 2 {
						wantTags["tag"] = []string{name}
					}
					if d.trailing {
						wantComment = []string{"trailing of " + name}
					}
					tags, lines := p.Doc(pos)
					comment := p.Comment(pos)
					bad := ""
					if len(lines) != len(wantDoc) || (len(lines) > 0 && !reflect.DeepEqual(lines, wantDoc)) {
						bad += fmt.Sprintf(" Doc(%s) lines = %q, want %q;", name, lines, wantDoc)
					}
					if len(tags) != len(wantTags) || (len(tags) > 0 && !reflect.DeepEqual(map[string][]string(tags), wantTags)) {
						bad += fmt.Sprintf(" Doc(%s) tags = %v, want %v;", name, tags, wantTags)
					}
					if len(comment) != len(wantComment) || (len(comment) > 0 && !reflect.DeepEqual(comment, wantComment)) {
						bad += fmt.Sprintf(" Comment(%s) = %q, want %q;", name, comment, wantComment)
					}
					if bad != "" {
						fails++
						if fails <= 3 {
							t.Errorf("FAILING INPUT:%s source:\n%s", bad, src)
						}
					}
				}
			}
		}
	}
	if fails > 3 {
		t.Errorf("%d failing (layout, declaration) pairs in total", fails)
	}
	t.Logf("%d layouts checked", layouts)
}
