package namer

import (
	"go/token"
	"testing"
)

// runtime check of the import tracker's proved contract on an adversarial pool: all ordered subsets of size <= 3.
func TestProbe_ImportNames(t *testing.T) {
	pool := []string{"b", "x/ab", "a/b", "github.com/json-iterator/go", "example.com/9p", "example.com/a..b", "example.com/x/type",
		"fmt", "example.com/fmt", "k8s.io/api/core/v1", "k8s.io/api/apps/v1", "example.com/apis/foo", "example.com/domain/foo", "example.com/_x",
		"example.com/x-y", "example.com/x_y", "gopkg.in/yaml.v3", "example.com/v2", "strings", "other.org/strings"}
	n := 0
	check := func(paths []string) {
		n++
		tr := NewDefaultImportTracker().(*defaultImportTracker)
		for _, p := range paths {
			func() {
				defer func() {
					if r := recover(); r != nil {
						t.Fatalf("add(%q) after %q panics: %v", p, paths, r)
					}
				}()
				tr.add(p)
				tr.add(p)
			}()
		}
		seen := map[string]string{}
		for _, p := range paths {
			name := tr.LocalNameOf(p)
			if !token.IsIdentifier(name) || name == "_" {
				t.Fatalf("paths %q: %q is bound to %q, not a usable identifier", paths, p, name)
			}
			if q, dup := seen[name]; dup && q != p {
				t.Fatalf("paths %q: %q and %q share the name %q", paths, p, q, name)
			}
			seen[name] = p
			if sp, ok := std.nameToPath[name]; ok && sp != p {
				t.Fatalf("paths %q: %q took the name %q of std package %q", paths, p, name, sp)
			}
			if back, ok := tr.PathOf(name); !ok || back != p {
				t.Fatalf("paths %q: PathOf(%q) = %q", paths, name, back)
			}
		}
		if len(tr.Imports()) != len(seen) {
			t.Fatalf("paths %q: Imports() has %d entries, want %d", paths, len(tr.Imports()), len(seen))
		}
	}
	for i := range pool {
		check([]string{pool[i]})
		for j := range pool {
			if j == i {
				continue
			}
			check([]string{pool[i], pool[j]})
			for k := range pool {
				if k == i || k == j {
					continue
				}
				check([]string{pool[i], pool[j], pool[k]})
			}
		}
	}
	t.Logf("checked %d path sequences", n)
}
