package types

// grammar enumeration shared with the C15 probes
func refs(depth int) []string {
	heads := []string{"T", "a.b/c.T", "example.com/x/v2.Name", "P"}
	if depth == 0 {
		return heads
	}
	sub := refs(depth - 1)
	if len(sub) > 6 {
		sub = append(append([]string{}, sub[:3]...), sub[len(sub)-3:]...)
	}
	var out []string
	out = append(out, heads...)
	for _, h := range heads[:3] {
		for _, a := range sub {
			out = append(out, h+"["+a+"]")
			for _, b := range sub {
				out = append(out, h+"["+a+","+b+"]")
			}
		}
		out = append(out, h+"["+sub[0]+","+sub[1]+","+sub[len(sub)-1]+"]")
	}
	return out
}

