package types

import (
	"strings"
	"testing"
)

// bounded stand-in for "Walk hands r and then, recursively, every node of r.TypeList to the callback, in pre-order,
// skipping exactly the subtree of a node the callback refuses, and changes nothing" (the contract of Walk only says
// `iterator`: no store of its own). Oracle: an independent recursive pre-order over the parsed tree.
func preorder(r *TypeRef, refuse string, out *[]string) {
	*out = append(*out, r.String())
	if r.String() == refuse {
		return
	}
	for _, c := range r.TypeList {
		preorder(c, refuse, out)
	}
}

func TestProbe_WalkVisitsEveryNodeInPreorder(t *testing.T) {
	n := 0
	for _, s := range refs(2) {
		root, err := ParseTypeRef(s)
		if err != nil {
			t.Fatalf("ParseTypeRef(%q): %v", s, err)
		}
		var all []string
		preorder(root, "\x00", &all)
		// refuse nothing, then refuse each distinct node in turn
		for _, refuse := range append([]string{"\x00"}, all...) {
			fresh, _ := ParseTypeRef(s)
			var want []string
			preorder(fresh, refuse, &want)
			var got []string
			fresh.Walk(func(x *TypeRef) bool {
				got = append(got, x.String())
				return x.String() != refuse
			})
			if strings.Join(got, " | ") != strings.Join(want, " | ") {
				t.Fatalf("Walk over %q (refusing %q) visited\n  %q\nwant (pre-order)\n  %q", s, refuse, got, want)
			}
			if fresh.String() != s {
				t.Fatalf("Walk changed the tree: %q prints as %q afterwards", s, fresh.String())
			}
			n++
		}
	}
	t.Logf("%d walks checked", n)
}
