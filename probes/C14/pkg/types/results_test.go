package types

import (
	"fmt"
	"go/types"
	"path/filepath"
	"sort"
	"testing"
	"time"
)

// Bounded runtime check for C14 (shape, no panic, termination, same answer twice) on generated function shapes:
// self/mutual recursion, grouped results, bodyless declarations, closures with MORE results than the callee,
// named results, cross-function calls. Oracle: the declared signature.
func TestProbe_ResultsOfShape(t *testing.T) {
	root, u := initModule(t, map[string]string{
		"a": `
package a

import (
	"errors"
	_ "unsafe"
)

//go:linkname nanotime runtime.nanotime
func nanotime() int64

func Lit() (int, string, bool) { return 1, "x", true }

func Self(n int) (string, error) {
	if n == 0 {
		return "", errors.New("x")
	}
	return Self(n - 1)
}

func Ping(n int) (a, b int, err error) {
	if n == 0 {
		return 1, 2, nil
	}
	return Pong(n - 1)
}

func Pong(n int) (int, int, error) { return Ping(n) }

func Named() (v int, err error) {
	v = 3
	err = errors.New("n")
	return
}

func do(f func() (int, string, error)) error {
	_, _, err := f()
	return err
}

func Wide() error {
	return do(func() (int, string, error) { return 0, "", errors.New("w") })
}

func do2(f func() (int, error)) (string, error) {
	_, err := f()
	return "", err
}

func Wide2() (string, error) {
	return do2(func() (int, error) { return 0, errors.New("w2") })
}

func Now() (int64, bool) { return nanotime(), true }

// literal-only returns (the alternatives must be exactly these values, in source order)
func Classify(n int) (string, bool) {
	if n > 0 {
		return "positive", true
	}
	if n < 0 {
		return "negative", true
	}
	return "zero", false
}

func ClassifyGoto(n int) (string, bool) {
	if n > 0 {
		goto pos
	}
	if n < 0 {
		goto neg
	}
	return "zero", false
pos:
	return "positive", true
neg:
	return "negative", true
}

func cycleA(n int) (int, error) {
	if n == 0 {
		return 0, errors.New("a")
	}
	return cycleB(n - 1)
}

func cycleB(n int) (int, error) { return cycleA(n) }

// callers OUTSIDE a recursion cycle (an answer must not depend on what was asked before)
func OutsideSelf() (string, error) { return Self(3) }
func OutsideCycle() (int, error)   { return cycleA(2) }

type T struct{}

func (T) M() (int, error)        { return 0, nil }
func (t *T) P() (x, y string)    { return "a", "b" }
func UseM(t T) (int, error)      { return t.M() }

// assignments that permute or copy plain locals (a look-up that follows copies must not chase its own statement)
func Swap(swap bool) any {
	var a, b any
	a = "x"
	b = 1
	if swap {
		a, b = b, a
	}
	return a
}

func Ordered(lo, hi int) (first any, second any) {
	first, second = lo, hi
	if hi < lo {
		first, second = second, first
	}
	return
}

func SelfAssign(n int) (x any, err error) {
	x = n
	x = x
	return x, err
}

func CopyChain() (string, error) {
	s, err := Self(1)
	a := s
	b := a
	a = b
	return a, err
}
`,
	})
	p := u.Package(filepath.Join(root, "a"))
	if p == nil {
		t.Fatal("package not loaded")
	}
	var fns []*types.Func
	for _, f := range p.Functions() {
		fns = append(fns, f)
	}
	for _, tn := range p.Types() {
		if named, ok := tn.Type().(*types.Named); ok {
			fns = append(fns, p.MethodsOf(named, true)...)
		}
	}
	sort.Slice(fns, func(i, j int) bool { return fns[i].FullName() < fns[j].FullName() })
	if len(fns) < 12 {
		t.Fatalf("only %d functions found", len(fns))
	}
	// literal-only functions: exact alternatives in source order
	wantLit := map[string]string{
		"Lit":          "(1, \"x\", true)",
		"Classify":     "(\"positive\" | \"negative\" | \"zero\", true | true | false)",
		"ClassifyGoto": "(\"zero\" | \"positive\" | \"negative\", false | true | true)",
	}
	for name, want := range wantLit {
		f := p.Function(name)
		if f == nil {
			t.Fatalf("function %s not found", name)
		}
		rs, _ := p.ResultsOf(f)
		if got := rs.String(); got != want {
			t.Errorf("FAILING INPUT: ResultsOf(%s) = %s, want exactly the literal values in source order %s", name, got, want)
		}
	}
	for _, fn := range fns {
		declared := fn.Type().(*types.Signature).Results()
		var first string
		for call := 0; call < 2; call++ {
			type answer struct {
				rs  FuncResults
				n   int
				pan any
			}
			ch := make(chan answer, 1)
			go func() {
				defer func() {
					if r := recover(); r != nil {
						ch <- answer{pan: r}
					}
				}()
				rs, n := p.ResultsOf(fn)
				ch <- answer{rs: rs, n: n}
			}()
			var a answer
			select {
			case a = <-ch:
			case <-time.After(20 * time.Second):
				t.Fatalf("ResultsOf(%s) did not return within 20s", fn.FullName())
			}
			if a.pan != nil {
				t.Errorf("FAILING INPUT: ResultsOf(%s) panics: %v", fn.FullName(), a.pan)
				break
			}
			if a.n != declared.Len() {
				t.Errorf("FAILING INPUT: ResultsOf(%s): n = %d, declared %d", fn.FullName(), a.n, declared.Len())
			}
			if a.n > 0 && len(a.rs) != a.n {
				t.Errorf("FAILING INPUT: ResultsOf(%s): %d lists, want %d", fn.FullName(), len(a.rs), a.n)
				continue
			}
			for at, alts := range a.rs {
				if len(alts) == 0 {
					t.Errorf("FAILING INPUT: ResultsOf(%s): result %d has no alternatives", fn.FullName(), at)
				}
			}
			s := fmt.Sprint(a.rs)
			if call == 0 {
				first = s
			} else if s != first {
				t.Errorf("FAILING INPUT: ResultsOf(%s): answers differ between calls: %s vs %s", fn.FullName(), first, s)
			}
		}
	}
}
