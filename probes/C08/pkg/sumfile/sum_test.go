package sumfile

import (
	"os"
	"path/filepath"
	"reflect"
	"testing"
)

// bounded stand-in for the round-trip clause of C08 (Load(Bytes(m)) == m): all maps with <= 3 entries over a small alphabet.
func TestProbe_SumRoundTrip(t *testing.T) {
	keys := []string{"a", "b/c", "example.com/m/p", "z"}
	vals := []string{"h1:x=", "h1:yy", "0"}
	dir := t.TempDir()
	n := 0
	var rec func(m map[string]string, from int)
	rec = func(m map[string]string, from int) {
		n++
		f := &File{Dir: dir, Data: m}
		want := spec_sumText(spec_sortedKeys(m), m, len(m))
		if string(f.Bytes()) != want {
			t.Fatalf("Bytes(%v) = %q, spec %q", m, f.Bytes(), want)
		}
		if err := f.Save(); err != nil {
			t.Fatal(err)
		}
		g, err := Load(dir)
		if err != nil {
			t.Fatal(err)
		}
		if len(m) != len(g.Data) || (len(m) > 0 && !reflect.DeepEqual(m, g.Data)) {
			t.Fatalf("Load(Save(%v)) = %v", m, g.Data)
		}
		for _, k := range keys {
			if f.Sum(k) != m[k] {
				t.Fatalf("Sum(%q) = %q", k, f.Sum(k))
			}
		}
		for i := from; i < len(keys); i++ {
			for _, v := range vals {
				m2 := map[string]string{}
				for k, x := range m {
					m2[k] = x
				}
				m2[keys[i]] = v
				rec(m2, i+1)
			}
		}
	}
	rec(map[string]string{}, 0)
	if _, err := Load(filepath.Join(dir, "missing")); err == nil {
		t.Fatal("Load of a missing gengo.sum must fail")
	}
	os.WriteFile(filepath.Join(dir, sumFilename), []byte("only-one-field\n\n  \nk v extra\n"), 0o644)
	g, err := Load(dir)
	if err != nil || len(g.Data) != 1 || g.Data["k"] != "v" {
		t.Fatalf("Load of a corrupt file: %v %v", g, err)
	}
	t.Logf("checked %d maps", n)
}
