package gengo

import (
	"testing"

	gengotypes "github.com/octohelm/gengo/pkg/types"
)

func TestProbe_ExposeAgreesWithParseRef(t *testing.T) {
	for _, s := range []string{"a.b/c.T", "example.com/x/v2.Name[a.b/c.T,int]", "T", "x.y.Z[k.L[m.N]]", "golang.org/x/tools.M[string]"} {
		p, name := PkgImportPathAndExpose(s)
		tn, err := gengotypes.ParseRef(s)
		if err != nil {
			if p != "" {
				t.Fatalf("%q: ParseRef fails but PkgImportPathAndExpose finds path %q", s, p)
			}
			continue
		}
		if p != ImportGoPath(tn.Pkg().Path()) {
			t.Fatalf("%q: paths differ: %q vs %q", s, p, tn.Pkg().Path())
		}
		if len(tn.Name()) < len(name) || tn.Name()[:len(name)] != name {
			t.Fatalf("%q: names differ: %q vs %q", s, name, tn.Name())
		}
	}
}
