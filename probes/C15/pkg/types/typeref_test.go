package types

import "testing"

// bounded stand-in for "ParseTypeRef succeeds on every well-formed reference and printing gives back the string"
// (the success/round-trip clauses of C15 are not discharged deductively): grammar enumeration.
func refs(depth int) []string {
	heads := []string{"T", "a.b/c.T", "example.com/x/v2.Name", "P"}
	if depth == 0 {
		return heads
	}
	sub := refs(depth - 1)
	if len(sub) > 6 {
		sub = append(append([]string{}, sub[:3]...), sub[len(sub)-3:]...)
	}
	var out []string
	out = append(out, heads...)
	for _, h := range heads[:3] {
		for _, a := range sub {
			out = append(out, h+"["+a+"]")
			for _, b := range sub {
				out = append(out, h+"["+a+","+b+"]")
			}
		}
		out = append(out, h+"["+sub[0]+","+sub[1]+","+sub[len(sub)-1]+"]")
	}
	return out
}

func TestProbe_TypeRefRoundTrip(t *testing.T) {
	n := 0
	for _, s := range refs(3) {
		n++
		r, err := ParseTypeRef(s)
		if err != nil {
			t.Fatalf("ParseTypeRef(%q) fails: %v", s, err)
		}
		if got := r.String(); got != s {
			t.Fatalf("ParseTypeRef(%q).String() = %q", s, got)
		}
	}
	t.Logf("checked %d references", n)
}

func TestProbe_ParseRefSplit(t *testing.T) {
	for _, s := range refs(2) {
		tn, err := ParseRef(s)
		dot := Spec_dot(s)
		if dot > 0 {
			if err != nil {
				t.Fatalf("ParseRef(%q): %v", s, err)
			}
			if tn.Pkg().Path() != s[:dot] || tn.Name() != s[dot+1:] {
				t.Fatalf("ParseRef(%q) = (%q, %q), want split at %d", s, tn.Pkg().Path(), tn.Name(), dot)
			}
		} else if err == nil {
			t.Fatalf("ParseRef(%q) succeeds without a package path", s)
		}
	}
}
