package inflector

import (
	"strings"
	"sync"
	"testing"
)

var irregular = []string{"person", "man", "child", "goose", "atlas", "foot", "tooth", "mouse", "ox", "move", "sex", "genus", "octopus"}

func TestProbe_PrefixPreserved(t *testing.T) {
	for _, w := range irregular {
		for _, variant := range []string{w, strings.ToUpper(w[:1]) + w[1:], strings.ToUpper(w)} {
			alone := Pluralize(variant)
			for _, pre := range []string{"old-", "Old ", "x_", "a b-", "é ", "first line\n", "a\r\n", "two\n\nlines ", "tab\t"} {
				got := Pluralize(pre + variant)
				if alone != variant || got != pre+variant { // only meaningful when the word is irregular for this rule set
					if !strings.HasPrefix(got, pre) {
						t.Fatalf("Pluralize(%q) = %q does not preserve the prefix %q", pre+variant, got, pre)
					}
					if strings.HasSuffix(pre, "_") {
						continue // '_' is a word character: no word boundary, the word is not matched as irregular
					}
					if got != pre+alone {
						t.Fatalf("Pluralize(%q) = %q, want prefix + Pluralize(%q) = %q", pre+variant, got, variant, pre+alone)
					}
				}
			}
		}
	}
}

func TestProbe_TotalOnOddInput(t *testing.T) {
	for _, s := range []string{"", " ", "atlaſ", "geeſe", "Kine", "\xff", "people", "-", "a\nb", "PERSON", "Atlas "} {
		func() {
			defer func() {
				if r := recover(); r != nil {
					t.Fatalf("inflecting %q panics: %v", s, r)
				}
			}()
			if Pluralize(s) != Pluralize(s) || Singularize(s) != Singularize(s) {
				t.Fatalf("inflecting %q is not deterministic", s)
			}
		}()
	}
}

func TestProbe_ConcurrentCallersAgree(t *testing.T) {
	// conformance sample of the assumed sync.Map/sync.OnceValue contract (not a proof about schedules)
	var wg sync.WaitGroup
	res := make([]string, 64)
	for i := range res {
		wg.Add(1)
		go func(i int) { defer wg.Done(); res[i] = Pluralize("old-person") + Singularize("new mice") }(i)
	}
	wg.Wait()
	for _, r := range res {
		if r != res[0] {
			t.Fatalf("concurrent callers disagree: %q vs %q", r, res[0])
		}
	}
}
