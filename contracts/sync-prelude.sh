#!/bin/sh
# rewrites the prelude section (from the marker line to EOF) of every contracts_verif.go in /repo
for f in $(find /repo -name contracts_verif.go); do
  python3 - "$f" <<'PY'
import sys
p=sys.argv[1]; s=open(p).read()
m='// ---- govc prelude'
i=s.find(m)
if i>=0: s=s[:i]
s=s.rstrip('\n')+'\n\n'+open('/verif/contracts/prelude.go.txt').read()
open(p,'w').write(s)
PY
done
