#!/usr/bin/env python3
"""Writes /tmp/mut/prompt_<id>.txt for the given property ids: the task text handed to a fresh sub-agent that gets ONLY
the property text and a scratch worktree (no hooks, nothing from /verif). Earlier seeded changes are named so that a new
round targets a different clause/function."""
import json,sys,glob,os
props={json.loads(l)['id']:json.loads(l) for l in open('/verif/properties.jsonl')}
tmpl='''You are helping to evaluate a verification tool for the Go repository octohelm/gengo (a Go code-generation framework). Your job: craft ONE realistic, subtle code change to the repository that BREAKS the property stated below, while the repository still compiles and its existing test suite still passes.

Property {id} — {title}
Statement: {statement}
Quantified over: {quant}
{earlier}
Your scratch git worktree of the repository is at /tmp/mut/{id} (work ONLY inside that directory tree; do not read or touch /verif, /repo or other /tmp/mut/* directories). The sandbox has no network. Use this environment for every go command:
  export GOFLAGS=-mod=mod GOPROXY=off
Run the existing tests with:  cd /tmp/mut/{id} && go test -vet=off -count=1 ./...

Requirements for the change:
1. It must still compile (go build ./...) and ALL existing tests must still pass.
2. It must break the property above in observable behaviour (not merely style).
3. It must NOT be something ordinary use would expose at once. It should need something specific to manifest: an unusual input, a particular multi-step sequence of operations, a fault at a particular point, a particular map-iteration order / interleaving, or two cooperating sites that each look fine alone. Think like a plausible regression a maintainer could introduce (an off-by-one, a reordered statement, a dropped check, a condition subtly widened or narrowed, a refactor that changes semantics in a corner case).
4. Keep the change small (a few lines, at most ~25).

Deliverables — create the directory /tmp/mut/{id}/out and put there:
  - patch.diff : output of `git diff` (run inside /tmp/mut/{id}, relative to its HEAD) containing ONLY your change to non-test source files of the repository (do not include the demonstration in the patch).
  - a demonstration: demo_test.go (a Go test file; state in notes.md which package directory it must be copied into and the `go test -run` command). The demonstration must FAIL (or panic / hang with a timeout) WITH your change applied and PASS WITHOUT it. Verify both directions yourself (to check the without-change direction use `git diff > /tmp/mut/{id}/p.diff && git apply -R /tmp/mut/{id}/p.diff`, then `git apply /tmp/mut/{id}/p.diff` to restore; do NOT use `git stash`: the stash is shared with other worktrees of the same repository and other agents' changes get mixed up) and keep the demonstration file out of the working tree when producing patch.diff.
  - notes.md : what the change is, why it breaks the property, what specific condition it needs in order to manifest, and the exact commands you ran with their observed results in both directions. First line of notes.md: `DEMO: <package dir> <go test -run regex>`.

Finish by leaving the worktree with your change APPLIED (uncommitted) and the out/ directory populated. Reply with a short summary (what you changed, what it needs to manifest, and confirmation that tests pass and the demonstration behaves as required).'''
for i in sys.argv[1:]:
    p=props[i]
    prev=[json.load(open(m))['change'] for m in sorted(glob.glob(f'/verif/seeded/{i}-*/meta.json'))]
    earlier=''
    if prev:
        earlier='\nEarlier rounds already produced these changes; pick a DIFFERENT function and a DIFFERENT clause of the property:\n'+''.join(f'  - {c}\n' for c in prev)
    os.makedirs('/tmp/mut',exist_ok=True)
    open(f'/tmp/mut/prompt_{i}.txt','w').write(tmpl.format(id=i,title=p['title'],statement=p['statement'],quant=p['quantifier']['text'],earlier=earlier))
