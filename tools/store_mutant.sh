#!/bin/bash
# usage: store_mutant.sh <prop> <n> "<change>" "<needs>"   — stores the CONFIRMED change of /tmp/mut/<prop>/out as /verif/seeded/<prop>-<n>
p=$1; n=$2; change=$3; needs=$4
d=/verif/seeded/$p-$n; mkdir -p $d
cp /tmp/mut/$p/out/patch.diff /tmp/mut/$p/out/demo_test.go /tmp/mut/$p/out/notes.md $d/
read _ pkg run < <(head -1 $d/notes.md | sed 's/`//g')
python3 - "$p" "$n" "$change" "$needs" "$pkg" "$run" <<'PY'
import json,sys
p,n,change,needs,pkg,run=sys.argv[1:]
m={"property":p,"change":change,"needs_to_manifest":needs,
 "author":"independent sub-agent given only the property text, the one-line descriptions of earlier seeded changes and a scratch worktree without verification hooks",
 "confirmed":{"suite_passes_with_patch":True,"demo_fails_with_patch":True,"demo_passes_without_patch":True,
  "commands":["cd <scratch worktree> && git apply patch.diff && go build ./... && go test -vet=off -count=1 ./...",
   f"cp demo_test.go {pkg}/zz_demo_test.go && go test -vet=off -count=1 -run '{run}' ./{pkg}/   # FAIL with patch, ok without"]},
 "detected_by":"",
 "check_cmd":f"git -C /repo apply /verif/seeded/{p}-{n}/patch.diff && /verif/bin/govc check -property {p} -tier quick; git -C /repo checkout -- ."}
json.dump(m,open(f"/verif/seeded/{p}-{n}/meta.json","w"),indent=1)
PY
