#!/bin/bash
# Must-fail corpus: applies every /verif/seeded/<id>/patch.diff to /repo in turn, runs the quick check of its property
# and reverts. A seeded change that is NOT reported (exit 0) is a hole in the contracts. Also runs the benign corpus
# (/verif/seeded-benign/<id>/patch.diff: behaviour-preserving edits) which must NOT be reported.
# usage: selftest.sh [id ...]      (default: all)
cd /repo || exit 2
if ! git diff --quiet; then echo "repo dirty"; exit 2; fi
export GOFLAGS=-mod=mod GOPROXY=off GOVC_EVIDENCE_DIR=$(mktemp -d /tmp/govc-ev-XXXX)
ids="$@"
[ -z "$ids" ] && ids="$(ls /verif/seeded) $(ls /verif/seeded-benign 2>/dev/null | sed 's/^/benign:/')"
missed=0; alarms=0
for id in $ids; do
  dir=/verif/seeded/$id; expect=1
  case $id in benign:*) dir=/verif/seeded-benign/${id#benign:}; expect=0;; esac
  prop=$(python3 -c "import json,sys;print(json.load(open('$dir/meta.json'))['property'])")
  props=$(python3 -c "import json,sys;m=json.load(open('$dir/meta.json'));print(' '.join(m.get('properties',[m['property']])))")
  exp=$(python3 -c "import json;print(json.load(open('$dir/meta.json')).get('expect',''))")
  tier=$(python3 -c "import json;print(json.load(open('$dir/meta.json')).get('tier','quick'))")
  git apply "$dir/patch.diff" || { echo "$id: patch does not apply"; missed=$((missed+1)); continue; }
  if ! go build ./... 2>/dev/null; then echo "$id: does not build"; git checkout -- .; continue; fi
  rc=0; names=""
  for p in $props; do
    out=$(GOVC_NO_SENSITIVITY=1 timeout 900 /verif/bin/govc check -property "$p" -tier $tier 2>&1); r=$?
    [ $r -ne 0 ] && rc=$r
    names="$names $(echo "$out" | grep -E '^VIOLATION' | head -3 | sed -E 's/.*replay=[^ ]*replays\/[^\/]*\///' | tr '\n' ' ')"
  done
  git checkout -- .
  if [ $expect -eq 1 ]; then
    if [ $rc -eq 0 ] && [ "$exp" = "missed" ]; then echo "known-gap $id ($props): not detected, as recorded in meta.json";
    elif [ $rc -eq 0 ]; then echo "MISSED  $id ($props)"; missed=$((missed+1)); else echo "caught  $id ($props): $names" | cut -c1-230; fi
  else
    if [ $rc -ne 0 ] && [ "$exp" = "alarm" ]; then echo "known-false-alarm $id ($props): $names" | cut -c1-230;
    elif [ $rc -ne 0 ]; then echo "FALSE-ALARM $id ($props): $names" | cut -c1-230; alarms=$((alarms+1)); else echo "quiet   $id ($props)"; fi
  fi
done
echo "selftest: missed=$missed false-alarms=$alarms"
[ $missed -eq 0 ] && [ $alarms -eq 0 ]
