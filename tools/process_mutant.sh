#!/bin/bash
# usage: process_mutant.sh <prop> — confirms the agent's change in /tmp/mut/<prop> (suite passes, demo fails with / passes without)
# and, if confirmed, prints a line CONFIRMED; the caller then stores it with store_mutant.sh.
id=$1
head -1 /tmp/mut/$id/out/notes.md
read _ pkg run < <(head -1 /tmp/mut/$id/out/notes.md | sed 's/`//g')
rm -f /tmp/mut/$id/out/go.mod
/verif/tools/confirm_mutant.sh $id $pkg "$run" 2>&1 | tail -14
