#!/bin/bash
# Parallel must-fail / must-not-fail corpus run. Like selftest.sh, but every worker applies the patches to ITS OWN scratch
# clone of /repo (under the system temp directory, removed afterwards) and runs the checks with GOVC_REPO pointing there,
# so /repo itself is never touched and several seeded changes are evaluated at once.
# usage: selftest_par.sh [-j N] [id ...]      (default: 4 workers, all ids)
J=4
if [ "$1" = "-j" ]; then J=$2; shift 2; fi
cd /repo || exit 2
if ! git diff --quiet; then echo "repo dirty"; exit 2; fi
ids="$@"
[ -z "$ids" ] && ids="$(ls /verif/seeded) $(ls /verif/seeded-benign 2>/dev/null | sed 's/^/benign:/')"
export GOFLAGS=-mod=mod GOPROXY=off
work=$(mktemp -d /tmp/govc-st-XXXX)
i=0
for id in $ids; do echo "$id" >> $work/q$((i % J)); i=$((i+1)); done
worker() {
  w=$1; clone=$work/repo$w
  git clone -q /repo $clone || exit 2
  export GOVC_REPO=$clone GOVC_EVIDENCE_DIR=$work/ev$w GOVC_REPLAY_DIR=$work/rp$w
  [ -f $work/q$w ] || return
  for id in $(cat $work/q$w); do
    dir=/verif/seeded/$id; expect=1
    case $id in benign:*) dir=/verif/seeded-benign/${id#benign:}; expect=0;; esac
    props=$(python3 -c "import json,sys;m=json.load(open('$dir/meta.json'));print(' '.join(m.get('properties',[m['property']])))")
    exp=$(python3 -c "import json;print(json.load(open('$dir/meta.json')).get('expect',''))")
    tier=$(python3 -c "import json;print(json.load(open('$dir/meta.json')).get('tier','quick'))")
    (cd $clone && git apply "$dir/patch.diff") || { echo "$id: patch does not apply"; continue; }
    if ! (cd $clone && go build ./... 2>/dev/null); then echo "$id: does not build"; (cd $clone && git checkout -q -- . && git clean -fdq); continue; fi
    rc=0; names=""
    for p in $props; do
      out=$(GOVC_NO_SENSITIVITY=1 timeout 1200 ${GOVC_BIN:-/verif/bin/govc} check -property "$p" -tier $tier 2>&1); r=$?
      [ $r -ne 0 ] && rc=$r
      names="$names $(echo "$out" | grep -E '^VIOLATION' | head -3 | sed -E 's/.*replay=[^ ]*\/[^\/]*\///' | tr '\n' ' ')"
    done
    (cd $clone && git checkout -q -- . && git clean -fdq)
    if [ $expect -eq 1 ]; then
      if [ $rc -eq 0 ] && [ "$exp" = "missed" ]; then echo "known-gap $id ($props): not detected, as recorded in meta.json";
      elif [ $rc -eq 0 ]; then echo "MISSED  $id ($props)"; else echo "caught  $id ($props): $names" | cut -c1-230; fi
    else
      if [ $rc -ne 0 ] && [ "$exp" = "alarm" ]; then echo "known-false-alarm $id ($props): $names" | cut -c1-230;
      elif [ $rc -ne 0 ]; then echo "FALSE-ALARM $id ($props): $names" | cut -c1-230; else echo "quiet   $id ($props)"; fi
    fi
  done
}
for w in $(seq 0 $((J-1))); do worker $w > $work/out$w 2>&1 & done
wait
cat $work/out* | sort -k2
missed=$(cat $work/out* | grep -c '^MISSED'); alarms=$(cat $work/out* | grep -c '^FALSE-ALARM')
rm -rf $work
echo "selftest: missed=$missed false-alarms=$alarms"
[ $missed -eq 0 ] && [ $alarms -eq 0 ]
