#!/bin/bash
# usage: try_clone.sh <property> <patch.diff> [tier]  — applies the patch to a scratch clone of /repo's HEAD (+ uncommitted contract edits), runs the check there.
prop=$1; patch=$2; tier=${3:-quick}
c=$(mktemp -d /tmp/govc-try-XXXX)
git clone -q /repo $c/r || exit 2
(cd /repo && git diff) > $c/wip.diff; [ -s $c/wip.diff ] && (cd $c/r && git apply $c/wip.diff)
(cd $c/r && git apply "$patch") || { echo "patch does not apply"; rm -rf $c; exit 2; }
export GOFLAGS=-mod=mod GOPROXY=off GOVC_REPO=$c/r GOVC_EVIDENCE_DIR=$c/ev GOVC_REPLAY_DIR=$c/rp GOVC_NO_SENSITIVITY=1
timeout 900 ${GOVC_BIN:-/verif/bin/govc} check -property "$prop" -tier "$tier" > $c/log 2>&1; rc=$?
grep -E "^VIOLATION|^UNDECIDED|^KNOWN|^govc:" $c/log | cut -c1-230 | head -${LINES_MAX:-8}
echo "exit=$rc"
rm -rf $c
