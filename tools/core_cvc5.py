#!/usr/bin/env python3
"""usage: core_cvc5.py <query.smt2> — unsat core of the assertions using cvc5 (goal included)."""
import sys,re,subprocess
f=sys.argv[1]
lines=open(f).read().split('\n')
out=['(set-option :produce-unsat-cores true)']; n=0
for l in lines:
    if l.startswith('(check-sat'): continue
    if l.startswith('(assert ') and l.endswith(')') and not l.startswith('(assert (!') and l.count('(')==l.count(')'):
        n+=1; out.append(f'(assert (! {l[8:-1]} :named a{n}))')
    else: out.append(l)
out+=['(check-sat)','(get-unsat-core)']
open('/tmp/core_q.smt2','w').write('\n'.join(out))
r=subprocess.run(['cvc5','--tlimit=90000','--lang=smt2','/tmp/core_q.smt2'],capture_output=True,text=True).stdout
print(r.split('\n')[0])
names=re.findall(r'\ba\d+\b',r)
s='\n'.join(out)
for nm in names:
    m=re.search(r'\(assert \(! (.*) :named '+nm+r'\)\)',s)
    if m: print(nm, m.group(1)[:700]); print()
