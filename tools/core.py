#!/usr/bin/env python3
"""usage: core.py <query.smt2> [--keep-goal]  — prints an unsat core of the assumptions (negated goal dropped unless --keep-goal)."""
import sys, re, subprocess
f=sys.argv[1]; keep='--keep-goal' in sys.argv
lines=open(f).read().split('\n')
asserts=[i for i,l in enumerate(lines) if l.startswith('(assert ')]
out=['(set-option :produce-unsat-cores true)']
n=0
last=asserts[-1] if asserts else -1
for i,l in enumerate(lines):
    if l.startswith('(check-sat') : continue
    if l.startswith('(assert ') and l.endswith(')'):
        if i==last and not keep: continue
        n+=1; out.append(f'(assert (! {l[8:-1]} :named a{n}))')
    else: out.append(l)
out+=['(check-sat)','(get-unsat-core)']
open('/tmp/core_q.smt2','w').write('\n'.join(out))
try:
    r=subprocess.run(['z3-new','-T:30','/tmp/core_q.smt2'],capture_output=True,text=True,timeout=45).stdout
except subprocess.TimeoutExpired:
    print('timeout'); sys.exit(1)
print(r.split('\n')[0])
names=re.findall(r'\ba\d+\b',r)
s='\n'.join(out)
for nm in names:
    m=re.search(r'\(assert \(! (.*) :named '+nm+r'\)\)',s)
    if m: print(nm, m.group(1)[:600]); print()
