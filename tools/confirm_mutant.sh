#!/bin/bash
# usage: confirm_mutant.sh <id> <pkgdir> <run-regex> [extra go test flags]
# In the agent's scratch worktree /tmp/mut/<id>: confirms (1) suite passes with the patch, (2) demo fails with the patch,
# (3) demo passes without the patch.
id=$1; pkg=$2; run=$3; shift 3
cd /tmp/mut/$id || exit 2
export GOFLAGS=-mod=mod GOPROXY=off
git checkout -q -- . ; rm -f $pkg/zz_demo_test.go
git apply out/patch.diff || exit 2
echo "--- suite with patch"; go build $(go list ./... | grep -v /out$) && go test -vet=off -count=1 $(go list ./... | grep -v /out$) 2>&1 | grep -v "no test files" | grep -v "^ok" | head -5; echo "(suite done)"
cp out/demo_test.go $pkg/zz_demo_test.go
echo "--- demo WITH patch (expect FAIL)"; timeout 300 go test -vet=off -count=1 "$@" -run "$run" ./$pkg/ 2>&1 | tail -3
git apply -R out/patch.diff
echo "--- demo WITHOUT patch (expect ok)"; timeout 300 go test -vet=off -count=1 "$@" -run "$run" ./$pkg/ 2>&1 | tail -3
rm -f $pkg/zz_demo_test.go; git apply out/patch.diff
