#!/bin/bash
# usage: try_mutant.sh <property> <patch.diff> [tier]   — applies the patch to /repo, runs the check, reverts.
prop=$1; patch=$2; tier=${3:-quick}
cd /repo || exit 2
if ! git diff --quiet; then echo "repo dirty"; exit 2; fi
git apply "$patch" || { echo "patch does not apply"; exit 2; }
export GOFLAGS=-mod=mod GOPROXY=off GOVC_EVIDENCE_DIR=$(mktemp -d /tmp/govc-ev-XXXX)
if ! go build ./... 2>/tmp/mut_build.log; then echo "MUTANT DOES NOT BUILD"; cat /tmp/mut_build.log | head; git checkout -- .; exit 2; fi
timeout 900 /verif/bin/govc check -property "$prop" -tier "$tier" > /tmp/mut_check.log 2>&1; rc=$?
grep -E "^VIOLATION|^UNDECIDED|^KNOWN|failed obligation|^govc:" /tmp/mut_check.log | cut -c1-220 | head -12
echo "exit=$rc"
git checkout -- .
