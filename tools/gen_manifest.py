#!/usr/bin/env python3
"""Regenerates /verif/MANIFEST.json from the table below (single source of truth for the interface)."""
import json, subprocess

CLAIMED = {
 # id: (level text, level note, technique, design ref)
 "C01": ("WriteToFile: the text handed to go/parser is proved to be header(pkg name, generator) + package clause + import block + rendered body verbatim, for the path <SourceDir>/<base>.<generator>.go; a written file went through parse(ParseComments) -> SortImports -> gofumpt(LangVersion 'go'+module GoVersion, ModulePath) -> go/format in exactly this order (ghost pipeline log); writeImports prints exactly the tracker's table, sorted; Render appends fragments verbatim in order. Partial: that the formatters produce a parseable gofmt/gofumpt fixed point and keep declaration order is an ASSUMED contract on go/parser, go/format, gofumpt (E-fmt).",
         "E-fmt (formatter behaviour) assumed; os/io/fmt/path extern contracts; Snippet.Frag/IsNil, Context.Package, Package.* interface observers assumed pure (devirtualised where a proved contract exists); the odd os.IsNotExist/Create branch can leave an empty file (assumed unreachable)",
         "deductive verification: functional postconditions over ghost parsed-text and formatter-pipeline logs", "3/C01"),
 "C02": ("Effect ordering over a ghost file-system log, for every package/generator/error position: WriteToFile parses before it opens (a parse error is returned, nothing opened); pkgExecute has produced NO effect when a generator or deferred callback returns a non-swallowed error (all generators finish before the first write); only ErrSkip/ErrIgnore are swallowed and the error is returned unchanged by doGenerate*; Execute touches gengo.sum only when All is set, only after every pkgExecute returned nil, and every gengo.sum effect comes after all package effects (crash-prefix property). Exceptional exits: when user code (generator, custom constructor, deferred callback) PANICS, the panic unwinds through pkgExecute / Execute, their pending defers run, and every effect of the run so far is a package effect (gengo.sum not rewritten).",
         "POSIX behaviour of os.OpenFile/Create (a failed open has no effect) assumed; generators/callbacks assumed to perform no file-system effect of their own and not to write the framework's unexported fields (preserves); kill during Save itself not covered; the error-wrapping text (generator name + package path) is not a postcondition a panic is modelled only where user code is called (interface methods with a calllog contract and callbacks); runtime panics of the framework's own code are excluded by the safety obligations instead",
         "deductive verification: protocol postconditions and loop invariants over ghost effect/call logs", "3/C02"),
 "C03": ("Import tracker: representation invariant (path->name and name->path mutually inverse, every bound name a valid non-keyword identifier, std names reserved) is preserved by add for every path; add always registers the path (fallback numbering), is idempotent, and leaves every other binding unchanged (whole-map postcondition + frame); LocalNameOf/PathOf/Imports observers; golangTrackerLocalName/toLocalName total. Partial: rawNamer.Name and the import block printer are added as built; 'none unused' is not decided for third-party snippets. rawNamer.Name: own-package references are unqualified and register nothing, foreign ones are qualified with exactly the name the tracker binds to their package, register exactly that package and rename no other (bracket-free names); processName never registers the own package or an empty path and never renames; the interface contract of namer.ImportTracker is proved for *defaultImportTracker (lemma) and assumed for other implementations. Thorough tier: bounded probe over generated nested references.",
         "token.IsIdentifier, strconv.Itoa, strings.Split, slices.Index/Backward/Reverse extern contracts; camelcase.LowerCamelCase (package-level function value) assumed pure; termination of the fallback numbering loop not verified instantiated (bracketed) names: only the never-registers-own-package / never-renames clauses are proved, the exact rewriting is bounded (probe)",
         "deductive verification: representation invariant + whole-map postconditions + frame obligations discharged by SMT", "3/C03"),
 "C04": ("For every map range in the anchored code that is under contract (IsGeneratorEnabled, merge; more as built) the result is proved equal to a function of the map's CONTENTS with the iteration order modelled as an arbitrary duplicate-free enumeration of the key set: order cannot leak. Partial: whole-run determinism and the second-run fixed point are not decided. types.Load: packages are classified local/direct against the COMPLETE set of root modules (registration starts only after every entrypoint was seen), which is what makes the result independent of the order of the entrypoints.",
         "determinism of go/packages, go/types, gofumpt, dirhash assumed; statements over histories of runs not decided; only the functions listed in evidence.functions_under_contract are covered",
         "deductive verification (VCs from go/ast+go/types, z3/cvc5): order-independence under permuted map ranges", "3/C04"),
 "C05": ("Freshness and frame: gengoCtx.New returns a freshly allocated generator (never a registered prototype: proved for reflect.New, assumed contract for custom New); newGenfile/NewDefaultImportTracker/NewRawNamer/NewSnippetWriter return fresh objects wired to each other (writer -> that genfile's buffer, namer -> that genfile's tracker); pkgExecute's call log never contains a prototype as the invoked generator; pkgExecute preserves every pre-existing framework object (typed frame obligations).",
         "custom GeneratorNewer.New assumed to return a fresh generator; generators' own package-level state is outside (assumed absent); universe memo caches idempotent (argued)",
         "deductive verification: freshness postconditions + frame obligations + call-log invariant", "3/C05"),
 "C06": ("Enablement rule (IsGeneratorEnabled == the statement's rule, for every tag map and every iteration order), merge precedence (last map that defines a key wins, for every list of maps), tag extraction; dispatch/defer ordering added as built.",
         "Generator.Name assumed a pure observer; strings.Join/HasPrefix extern contracts; dispatch loop obligations listed in evidence when present",
         "deductive verification: functional postconditions + loop invariants discharged by SMT", "3/C06"),
 "C07": ("Frame over the ghost effect log, for every run: every effect of pkgExecute is Open/Write on <SourceDir>/<base>.<generator>.go of the processed package or Remove of a file OF THAT PACKAGE whose base name starts with <base>. (with the dot); a cached package and an early error produce no effect; Execute's effects are package effects of local packages that are direct (or any when All) followed only by effects on <Dir>/gengo.sum, and none of the latter without All; Filename/IsZero observers. After a successful non-cached package run EVERY source file of the package whose base name starts with <base>. has been rewritten (truncating open) or removed (completeness of the clean-up). types.Load: the direct flag is set exactly for the entrypoints.",
         "generator names assumed separator-free (written path vs removed path are not proved distinct); effects of user code assumed absent; files not in the package's compiled syntax are never candidates a stored genfile is assumed still non-empty when it is written (loop 5 assume)",
         "deductive verification: whole-log postconditions (every new effect satisfies the path predicate)", "3/C07"),
 "C08": ("pkgChanged: Force, missing previous file, missing entry, empty current sum or differing sums imply 'changed' and 'unchanged' implies equal recorded sums (all inputs); File.Sum observer. Partial: Bytes/Load round trip and Execute ordering added as built; convergence over histories not decided. File.Save opens <Dir>/gengo.sum TRUNCATING (flags read from the constant argument) before writing; types.Load records, for every local package, dirhash.HashDir of the WHOLE package directory.",
         "dirhash is a function of directory contents (assumed); histories of runs not decided",
         "deductive verification: postconditions of pkgChanged/File.Sum/Universe.SumFile discharged by SMT", "3/C08"),
 "C09": ("template.Frag and printer.Frag are proved equal to recursive specifications taken from the statement (every rune preserved in order, @name replaced by the complete rendering of its argument or nothing for nil/empty, one apostrophe consumed, bare '@' kept, no re-scan; %v/%T/%% and verbatim text; panics exactly when a placeholder is unbound / a verb is unknown / an argument is missing), Comment, GoDirective, Block, Fragments, Snippets, fn.Frag, Render against their specs; yield-after-stop discipline. Args.Args / arg.Args hand every binding (nil ones included) to T() exactly once.",
         "text/scanner delivers []rune(format) (false for a leading U+FEFF: known finding); ID/Value modelled as pure constructors; rendered snippets assumed not to mutate the template/printer they are rendered into (stable); T() constructor not under contract",
         "deductive verification: iterator bodies against recursive executable spec functions (fuel-encoded), loop invariants in accumulator form", "3/C09"),
 "C12": ("ExtractCommentTags proved equal to a recursive specification (every line classified exactly once, order kept, values per key in order, default markers), splitKV proved against the statement (first '=' or ' '), oneOf. Partial: the comment index invariant of newPkg and Doc/Comment look-ups are added as built.",
         "strings.Trim / strings.IndexAny extern contracts; go/parser comment attachment assumed",
         "deductive verification: loop invariants against recursive executable spec functions", "3/C12"),
 "C13": ("newPkg: the name->object tables of a loaded package are proved to hold EXACTLY the package-scope type names, constants and functions of the type checker (both inclusions, for every types.Info.Defs map and every iteration order: a function-local declaration or type parameter of the same name can never be recorded); Type/Types/Constant(s)/Function(s) return those tables; every method recorded under N is declared on (an instantiation of) N, keyed by the ORIGIN type so generic T works, and MethodsOf(T,false) is exactly the value-receiver subset of MethodsOf(T,true); Imports() maps every import path to Universe.Package(path); SourceDir/Module/Files/Pkg observers. Partial: completeness of the method table (every declared method is listed) and LocateInPackage are not decided. MethodsOf never appends to a reslice of the stored method list (aliasing guard: S.alias-append).",
         "go/types facts assumed (listed in evidence): Scope.Lookup(obj.Name()) == obj for package-scope objects, scope functions have no receiver, Origin() idempotent; go/packages populates Imports for every import path (E-load)",
         "deductive verification: whole-map postconditions + loop invariants over an arbitrary-order map range, discharged by SMT", "3/C13"),
 "C14": ("visits.visited marks the (function type, index) pair and reports whether it was marked (whole-map postcondition); funcResultsFromSignature yields exactly n one-element lists; Concat merges position-wise; resultsFromAst returns exactly n non-empty lists whenever a syntax node exists (bodyless declarations included), whatever the per-slot iterators yield; Results / ResultsOf return n and exactly n non-empty lists for every signature whose recorded node is a declaration, a literal, a selector naming a function, a call, or absent (condition spec_knownShape, stated in the contract); callExprResultAt: every tuple index in range, no nil dereference, no yield after stop. Partial: termination of the mutually recursive resolver and the 'assignable alternatives' / 'exactly the literal values' clauses are not decided; thorough tier adds a bounded probe over generated function shapes (recursion, grouped results, closures wider than the callee, bodyless).",
         "go/types and go/ast facts assumed (listed in evidence): FuncDecl/FuncLit have a Type, tuple elements are non-nil typed variables, a *types.Func's type is a *types.Signature; frames of the resolver iterators resultsFromAstAt / resultsAt / resultsAtReturnOrAssignment are TRUSTED (they never store into a resolver, a pkgInfo or go/packages records)",
         "deductive verification: shape postconditions + safety sweep discharged by SMT; bounded probe in the thorough tier", "3/C14"),
 "C15": ("ParseRef and PkgImportPathAndExpose are proved against ONE definition of the split point (last '.' before the first '['), for every string: they agree by construction of their contracts; Ref/ref.String/ref.Name observers. Partial: ParseTypeRef round trip and processName are added as built.",
         "strings.Index/LastIndex extern contracts (first/last occurrence of a byte)",
         "deductive verification: postconditions over shared spec functions", "3/C15"),
 "C19": ("camelcase.Split never panics (every index/slice expression in bounds on every path, for every string), returns only non-empty words, and returns [src] for invalid UTF-8. Partial: losslessness (concatenation equals input) and converter totality are added as built.",
         "unicode.Is*, utf8.ValidString total and deterministic (uninterpreted); string/[]rune conversion axioms; integers mathematical",
         "deductive verification: safety sweep + loop invariants discharged by SMT", "3/C19"),
 "C20": ("Rule.inflected never panics, is functional (deterministic analysis: no havoc, no unknown call), and satisfies the prefix-preservation lemma inflected(pre+w) == pre+inflected(w), proved as a ghost lemma over its contract. Partial: memoisation (Rule.Inflected) is a trusted contract; data races are not decided. Rule.Init writes only the rule tables: the memoisation cache is left untouched (frame obligation over the sync.Map ghost state).",
         "regexp match shape for the pattern built by Init, and non-empty replacements: assume clauses (listed in evidence); sync.Map/sync.OnceValue memoisation trusted; schedules outside this family",
         "deductive verification: safety + functional obligations + ghost lemma over contracts", "3/C20"),
}

NOT_APPLICABLE = {
 "C16": "behaviour of the generated program at run time; no contract on gengo's own functions can express it (DESIGN.md section 5)",
}
NOT_YET = "not built: see DESIGN.md section 0A.6"
NOT_APPLICABLE.update({
 "C10": "the statement is about the Go meaning of rendered text (compiles and evaluates to a deeply equal value); ValueLit is reflection-driven and every obligation would rest on assumed reflect contracts rather than on the code (DESIGN.md 0A.6)",
 "C11": "the statement is about rendered text type-checking to an identical type; TypeLit runs over reflect / octohelm-x type adaptors that govc can only model as uninterpreted observers (DESIGN.md 0A.6)",
 "C17": "behaviour of the generated program (compiles, copies without sharing); no contract on gengo's own functions expresses it; the thin totality clauses were not built (DESIGN.md 0A.6, section 5)",
 "C18": "behaviour/shape of the generated program (compiles, DeepCopyAs semantics); no contract on gengo's own functions expresses it; the thin error-path clauses were not built (DESIGN.md 0A.6, section 5)",
})

props=[json.loads(l) for l in open('/verif/properties.jsonl')]
hooks_commits = subprocess.run(["git","-C","/repo","log","--format=%h %s","--grep=^verif hooks"],capture_output=True,text=True).stdout.strip().splitlines()
m={"version":1,
 "setup_cmd":"cd /verif/govc && GOFLAGS=-mod=mod GOPROXY=off go build -o /verif/bin/govc .",
 "hooks":{"guard":"verif","enable":"govc loads /repo with build flag -tags=verif; the only guarded files are contracts_verif.go (//go:build verif): //@ contract comment blocks plus executable spec_* / lemma_* ghost functions; no executable line of the repository is instrumented",
          "baseline_off_cmd":"cd /repo && GOFLAGS=-mod=mod GOPROXY=off go test -vet=off -count=1 ./...",
          "source_commits":[c.split()[0] for c in hooks_commits],"add_only":True},
 "engines":[{"name":"govc","path":"/verif/govc","serves_properties":sorted(CLAIMED),
   "kind_free_text":"contract-based deductive verifier for Go written for this task: verification conditions generated by symbolic execution over go/ast+go/types of /repo's current working tree (loaded with -tags verif), contracts in //@ comment blocks of contracts_verif.go, obligations discharged per function (callers see callee contracts only) by z3 4.8.12 / z3 5.1.0 / cvc5 1.0.3"}],
 "checks":[],
 "notes":"Every check regenerates all obligations of its property from /repo's current source on every run. VIOLATION = an obligation that is in /verif/baseline/obligations.json (discharged on the delivered tree) can no longer be discharged; UNDECIDED lines (exit 0) are failed obligations that were never proved. known findings: /verif/known_findings.json.",
 "not_applicable":[]}
for p in props:
    i=p["id"]
    if i in CLAIMED:
        text,note,tech,ref=CLAIMED[i]
        m["checks"].append({"property_id":i,
          "quick_cmd":f"/verif/bin/govc check -property {i} -tier quick",
          "thorough_cmd":f"/verif/bin/govc check -property {i} -tier thorough",
          "evidence_file":f"/verif/evidence/{i}.json",
          "replay_cmd_template":"/verif/bin/govc replay {path}",
          "engine":"govc",
          "level_claimed":{"category":"proof","text":text,"design_ref":"DESIGN.md section "+ref},
          "level_note":note,"technique":tech})
    else:
        m["not_applicable"].append({"property_id":i,"reason":NOT_APPLICABLE.get(i,NOT_YET)})
json.dump(m,open('/verif/MANIFEST.json','w'),indent=1)
print("checks:",len(m["checks"]),"not_applicable:",len(m["not_applicable"]))
