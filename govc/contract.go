package main

import (
	"fmt"
	"go/ast"
	"strconv"
	"strings"
	"unicode"

	"golang.org/x/tools/go/packages"
)

// Clause is one line (possibly continued) of a //@ contract block.
type Clause struct {
	Kind string // requires ensures invariant decreases assigns yields panics pure trusted props note hint lemma ...
	Loop int    // loop ordinal (1-based) or 0
	Lit  int    // function literal ordinal (1-based) or 0 = the function itself
	Text string
	Ord  int // ordinal among clauses of same (Kind, Loop, Lit)
	Pos  string
	// Off: an auxiliary clause (loop invariant, loop assumption, hint) set aside for this run because it no longer
	// binds or no longer holds; the proof must then succeed without it (see dropAuxiliary)
	Off bool
	// Renamed: the clause only binds after rename recovery (a variable it names is gone and it was re-stated over a
	// guessed successor)
	Renamed bool
}

// Contract is the //@ block of one function.
type Contract struct {
	Key     string
	Pkg     *packages.Package
	Props   []string
	// PropQual[id] == "frame": the function serves property id only through its frame / purity / ordering obligations
	// (class R and the aliasing guards): its functional clauses belong to other properties
	PropQual map[string]string
	Clauses []*Clause
	Fn      *FuncInfo
	BindErr string
	Pos     string
	Iface   bool // contract of an interface method (assumed, not verified)
}

func (c *Contract) Has(kind string, lit int) bool {
	for _, cl := range c.Clauses {
		if cl.Kind == kind && cl.Lit == lit && !cl.Off {
			return true
		}
	}
	return false
}

func (c *Contract) Get(kind string, loop, lit int) []*Clause {
	var out []*Clause
	if c == nil {
		return nil
	}
	for _, cl := range c.Clauses {
		if cl.Kind == kind && cl.Loop == loop && cl.Lit == lit && !cl.Off {
			out = append(out, cl)
		}
	}
	return out
}

var clauseKeywords = map[string]bool{
	"func": true, "props": true, "requires": true, "ensures": true, "loop": true, "lit": true,
	"decreases": true, "assigns": true, "yields": true, "yields2": true, "panics": true, "pure": true, "trusted": true,
	"note": true, "hint": true, "lemma": true, "ghost": true, "invariant": true, "inline": true,
	"effects": true, "reads": true, "heapfree": true, "stable": true, "calllog": true, "fnvalue-calllog": true, "preserves": true, "fresh-result": true, "noglobals": true, "noglobalstate": true, "functional": true, "abstract": true, "nopanic": true, "maypanic": true, "assume": true, "stateful": true, "iterator": true, "onpanic": true, "modular": true, "framed": true, "ordered": true,
}

func parseContractFile(p *Program, pkg *packages.Package, f *ast.File) ([]*Contract, error) {
	var out []*Contract
	var cur *Contract
	var last *Clause
	for _, cg := range f.Comments {
		for _, c := range cg.List {
			txt := c.Text
			var body string
			switch {
			case strings.HasPrefix(txt, "//@"):
				body = txt[3:]
			case strings.HasPrefix(txt, "// @"):
				body = txt[4:]
			default:
				continue
			}
			body = strings.TrimSpace(body)
			if body == "" {
				continue
			}
			pos := p.Fset.Position(c.Pos())
			posStr := fmt.Sprintf("%s:%d", relPath(p.RepoDir, pos.Filename), pos.Line)
			first, rest := splitWord(body)
			if !clauseKeywords[first] {
				// continuation
				if last == nil {
					return nil, fmt.Errorf("%s: continuation line without clause: %s", posStr, body)
				}
				last.Text += " " + body
				continue
			}
			if first == "func" {
				name := strings.TrimSpace(rest)
				if i := strings.IndexAny(name, " ("); i >= 0 {
					name = name[:i]
				}
				cur = &Contract{Key: relPkg(pkg.PkgPath) + "." + name, Pkg: pkg, Pos: posStr}
				out = append(out, cur)
				last = nil
				continue
			}
			if cur == nil {
				return nil, fmt.Errorf("%s: clause before any `func`: %s", posStr, body)
			}
			cl := &Clause{Pos: posStr}
			for {
				if first == "lit" {
					w, r := splitWord(rest)
					n, err := strconv.Atoi(w)
					if err != nil {
						return nil, fmt.Errorf("%s: bad lit ordinal", posStr)
					}
					cl.Lit = n
					first, rest = splitWord(r)
					continue
				}
				if first == "loop" {
					w, r := splitWord(rest)
					n, err := strconv.Atoi(w)
					if err != nil {
						return nil, fmt.Errorf("%s: bad loop ordinal", posStr)
					}
					cl.Loop = n
					first, rest = splitWord(r)
					continue
				}
				break
			}
			cl.Kind = first
			cl.Text = strings.TrimSpace(rest)
			if cl.Kind == "props" {
				for _, tok := range strings.Fields(cl.Text) {
					id, qual, _ := strings.Cut(tok, ":")
					cur.Props = append(cur.Props, id)
					if qual != "" {
						if cur.PropQual == nil {
							cur.PropQual = map[string]string{}
						}
						cur.PropQual[id] = qual
					}
				}
			}
			for _, o := range cur.Clauses {
				if o.Kind == cl.Kind && o.Loop == cl.Loop && o.Lit == cl.Lit {
					cl.Ord++
				}
			}
			cur.Clauses = append(cur.Clauses, cl)
			last = cl
		}
	}
	return out, nil
}

func relPath(base, p string) string {
	if strings.HasPrefix(p, base+"/") {
		return p[len(base)+1:]
	}
	return p
}

func splitWord(s string) (string, string) {
	s = strings.TrimSpace(s)
	for i, c := range s {
		if unicode.IsSpace(c) {
			return s[:i], strings.TrimSpace(s[i:])
		}
	}
	return s, ""
}

// ---- desugaring of the clause expression language into plain Go ----

// topLevelIndex finds the first occurrence of op in s at nesting depth 0 outside literals; -1 if none.
func topLevelIndex(s, op string) int {
	depth := 0
	for i := 0; i < len(s); i++ {
		c := s[i]
		switch c {
		case '(', '[', '{':
			depth++
		case ')', ']', '}':
			depth--
		case '"':
			i++
			for i < len(s) && s[i] != '"' {
				if s[i] == '\\' {
					i++
				}
				i++
			}
		case '`':
			i++
			for i < len(s) && s[i] != '`' {
				i++
			}
		case '\'':
			i++
			for i < len(s) && s[i] != '\'' {
				if s[i] == '\\' {
					i++
				}
				i++
			}
		default:
			if depth == 0 && strings.HasPrefix(s[i:], op) {
				// do not match ==> inside <==>
				if op == "==>" && i > 0 && s[i-1] == '<' {
					continue
				}
				return i
			}
		}
	}
	return -1
}

func splitTopLevel(s string, sep byte) []string {
	var parts []string
	depth := 0
	start := 0
	for i := 0; i < len(s); i++ {
		c := s[i]
		switch c {
		case '(', '[', '{':
			depth++
		case ')', ']', '}':
			depth--
		case '"':
			i++
			for i < len(s) && s[i] != '"' {
				if s[i] == '\\' {
					i++
				}
				i++
			}
		case '`':
			i++
			for i < len(s) && s[i] != '`' {
				i++
			}
		case '\'':
			i++
			for i < len(s) && s[i] != '\'' {
				if s[i] == '\\' {
					i++
				}
				i++
			}
		default:
			if depth == 0 && c == sep {
				parts = append(parts, s[start:i])
				start = i + 1
			}
		}
	}
	parts = append(parts, s[start:])
	return parts
}

var specWords = map[string]string{
	"old": "spec_old", "entry": "spec_entry", "has": "spec_has", "fresh": "spec_fresh", "eq": "spec_eq", "existed": "spec_existed", "elem": "spec_elem",
}

// desugarNoWitness: read `exists m T [W] :: P` as plain `exists m T :: P` (set while a clause is evaluated for a CALLER).
var desugarNoWitness = false

// desugar rewrites the clause language (forall/exists/==>/<==>/old/has/...) into type-checkable Go.
func desugar(s string) (string, error) {
	s = strings.TrimSpace(s)
	for _, q := range []string{"forall", "exists"} {
		if strings.HasPrefix(s, q+" ") {
			i := topLevelIndex(s, "::")
			if i < 0 {
				return "", fmt.Errorf("quantifier without `::` in %q", s)
			}
			binders := strings.TrimSpace(s[len(q):i])
			body, err := desugar(s[i+2:])
			if err != nil {
				return "", err
			}
			fn := "spec_all"
			if q == "exists" {
				fn = "spec_any"
			}
			// `exists m T [W] :: P`: a WITNESS for the prover. Logically (exists m :: P) <=> (P[m:=W] || exists m :: P), so
			// the disjunct is harmless in any polarity; it spares the solver the instantiation. Callers of the contract
			// (who cannot see the callee's locals and loop ghosts W may mention) read the clause without it.
			if q == "exists" {
				if lb := strings.Index(binders, "["); lb > 0 && strings.HasSuffix(binders, "]") {
					wit := strings.TrimSpace(binders[lb+1 : len(binders)-1])
					binders = strings.TrimSpace(binders[:lb])
					parts := strings.Fields(binders)
					if len(parts) >= 2 && !strings.Contains(binders, ",") && !desugarNoWitness {
						inst := replaceIdent(body, parts[0], "("+wit+")")
						return fmt.Sprintf("(%s || spec_any(func(%s) bool { return %s }))", inst, binders, body), nil
					}
				}
			}
			bs := splitTopLevel(binders, ',')
			out := body
			for j := len(bs) - 1; j >= 0; j-- {
				b := strings.TrimSpace(bs[j])
				out = fmt.Sprintf("%s(func(%s) bool { return %s })", fn, b, out)
			}
			return out, nil
		}
	}
	if i := topLevelIndex(s, "<==>"); i >= 0 {
		l, err := desugar(s[:i])
		if err != nil {
			return "", err
		}
		r, err := desugar(s[i+4:])
		if err != nil {
			return "", err
		}
		return fmt.Sprintf("spec_iff(%s, %s)", l, r), nil
	}
	if i := topLevelIndex(s, "==>"); i >= 0 {
		l, err := desugar(s[:i])
		if err != nil {
			return "", err
		}
		r, err := desugar(s[i+3:])
		if err != nil {
			return "", err
		}
		return fmt.Sprintf("spec_implies(%s, %s)", l, r), nil
	}
	// descend into groups
	var sb strings.Builder
	for i := 0; i < len(s); i++ {
		c := s[i]
		switch c {
		case '"', '`', '\'':
			j := i + 1
			for j < len(s) && s[j] != c {
				if s[j] == '\\' && c != '`' {
					j++
				}
				j++
			}
			if j >= len(s) {
				return "", fmt.Errorf("unterminated literal in %q", s)
			}
			sb.WriteString(s[i : j+1])
			i = j
		case '(', '[', '{':
			close := map[byte]byte{'(': ')', '[': ']', '{': '}'}[c]
			depth := 0
			j := i
			for ; j < len(s); j++ {
				if s[j] == '"' || s[j] == '`' || s[j] == '\'' {
					q := s[j]
					j++
					for j < len(s) && s[j] != q {
						if s[j] == '\\' && q != '`' {
							j++
						}
						j++
					}
					continue
				}
				if s[j] == '(' || s[j] == '[' || s[j] == '{' {
					depth++
				} else if s[j] == ')' || s[j] == ']' || s[j] == '}' {
					depth--
					if depth == 0 {
						break
					}
				}
			}
			if j >= len(s) || s[j] != close {
				return "", fmt.Errorf("unbalanced brackets in %q", s)
			}
			inner := s[i+1 : j]
			sb.WriteByte(c)
			trim := strings.TrimSpace(inner)
			if strings.HasPrefix(trim, "forall ") || strings.HasPrefix(trim, "exists ") {
				d, err := desugar(inner)
				if err != nil {
					return "", err
				}
				sb.WriteString(d)
			} else if c == '[' && strings.Contains(inner, ":") {
				// slice expression: desugar each part
				parts := splitTopLevel(inner, ':')
				for k, pt := range parts {
					if k > 0 {
						sb.WriteByte(':')
					}
					if strings.TrimSpace(pt) != "" {
						d, err := desugar(pt)
						if err != nil {
							return "", err
						}
						sb.WriteString(d)
					}
				}
			} else if trim != "" {
				parts := splitTopLevel(inner, ',')
				for k, pt := range parts {
					if k > 0 {
						sb.WriteByte(',')
					}
					if strings.TrimSpace(pt) == "" {
						continue
					}
					d, err := desugar(pt)
					if err != nil {
						return "", err
					}
					sb.WriteString(d)
				}
			}
			sb.WriteByte(close)
			i = j
		default:
			if isIdentStart(c) && (i == 0 || !isIdentChar(s[i-1])) {
				j := i
				for j < len(s) && isIdentChar(s[j]) {
					j++
				}
				w := s[i:j]
				if r, ok := specWords[w]; ok && j < len(s) && s[j] == '(' && (i == 0 || s[i-1] != '.') {
					sb.WriteString(r)
				} else {
					sb.WriteString(w)
				}
				i = j - 1
			} else {
				sb.WriteByte(c)
			}
		}
	}
	return sb.String(), nil
}

func isIdentStart(c byte) bool { return c == '_' || (c >= 'a' && c <= 'z') || (c >= 'A' && c <= 'Z') }
func isIdentChar(c byte) bool  { return isIdentStart(c) || (c >= '0' && c <= '9') }

// identsIn returns the set of identifier-like words in s.
func identsIn(s string) map[string]bool {
	out := map[string]bool{}
	for i := 0; i < len(s); i++ {
		if isIdentStart(s[i]) && (i == 0 || !isIdentChar(s[i-1])) {
			j := i
			for j < len(s) && isIdentChar(s[j]) {
				j++
			}
			out[s[i:j]] = true
			i = j
		}
	}
	return out
}
