package main

import (
	"fmt"
	"go/ast"
	"go/constant"
	"go/types"
	"os"
	"strings"

	"golang.org/x/tools/go/types/typeutil"
)

// CallCtx carries an evaluated call to an extern handler.
type CallCtx struct {
	call     *ast.CallExpr
	fn       *types.Func
	sig      *types.Signature
	recv     Term
	hasRecv  bool
	recvType types.Type
	args     []Term
}

type externHandler func(fv *FuncVerifier, st *State, env *Env, c *CallCtx) []Term

// externs: ASSUMED contracts of functions outside /repo (trusted base; listed in evidence).
var externs = map[string]externHandler{}

// externDoc documents each assumed contract (printed in evidence).
var externDoc = map[string]string{}

// externEffects: "none" | "content" | "all" for loop write-set computation.
var externEffects = map[string]string{}

var iterExterns = map[string]func(fv *FuncVerifier, st *State, env *Env, call *ast.CallExpr) iterInfo{}
var iterMethodValues = map[string]func(fv *FuncVerifier, st *State, env *Env, sel *ast.SelectorExpr) iterInfo{}

func init() {
	iterExterns["bytes.Lines"] = func(fv *FuncVerifier, st *State, env *Env, call *ast.CallExpr) iterInfo {
		// yields the lines of its argument: no side effects; the lines themselves are not specified here
		// (a deterministic function of the argument, so that contracts can speak about "the lines of the file")
		data := fv.eval(st, env, call.Args[0])
		ys := fv.uf("bytes_lines", fv.w.SeqSort("Seq_Int"), "", data)
		return iterInfo{val: fv.fresh("linesiter", SRef), ys: ys, pure: true}
	}
	iterExterns["slices.Backward"] = func(fv *FuncVerifier, st *State, env *Env, call *ast.CallExpr) iterInfo {
		// yields (i, s[i]) for i = len(s)-1 ... 0
		w := fv.w
		s := fv.eval(st, env, call.Args[0])
		idx := fv.fresh("bw_idx", w.SeqSort(SInt))
		vals := fv.fresh("bw_val", s.Sort)
		x := seqX(s.Sort)
		st.Assume(And(eqT(w.SeqLen(idx), w.SeqLen(s)), eqT(w.SeqLen(vals), w.SeqLen(s))))
		st.Assume(T(SBool, "(forall ((i$ Int)) (! (=> (and (<= 0 i$) (< i$ (len_%[1]s %[2]s))) (and (= (at_Int %[3]s i$) (- (- (len_%[1]s %[2]s) 1) i$)) (= (at_%[1]s %[4]s i$) (at_%[1]s %[2]s (- (- (len_%[1]s %[2]s) 1) i$))))) :pattern ((at_Int %[3]s i$)) :pattern ((at_%[1]s %[4]s i$))))", x, s.S, idx.S, vals.S))
		return iterInfo{val: fv.fresh("bwiter", SRef), ys: idx, ys2: vals, pure: true}
	}
}

func init() {
	iterMethodValues["(log/slog.Record).Attrs"] = func(fv *FuncVerifier, st *State, env *Env, sel *ast.SelectorExpr) iterInfo {
		// slog.Record.Attrs(f) calls f on each attribute of the record: no side effect of its own (ASSUMED, log/slog);
		// the attributes are unconstrained
		fv.externUsed["(log/slog.Record).Attrs (assumed: calls the callback for each attribute, no other effect)"] = true
		return iterInfo{val: fv.fresh("attrsiter", SRef), pure: true}
	}
	iterMethodValues["(*sync.Map).Range"] = func(fv *FuncVerifier, st *State, env *Env, sel *ast.SelectorExpr) iterInfo {
		// Range yields exactly the stored pairs, each once, in an ARBITRARY order
		w := fv.w
		sr := w.SeqSort(SRef)
		recv := fv.eval(st, env, sel.X)
		ks := fv.readField(st, recv, "$syncmap:keys", sr)
		vs := fv.readField(st, recv, "$syncmap:vals", sr)
		yk := fv.fresh("rng_keys", sr)
		yv := fv.fresh("rng_vals", sr)
		fv.nfresh++
		perm := fmt.Sprintf("smperm!%d_%s", fv.nfresh, sanitize(fv.fn.Key))
		inv := fmt.Sprintf("sminv!%d_%s", fv.nfresh, sanitize(fv.fn.Key))
		w.UFun(perm, []Sort{SInt}, SInt, "")
		w.UFun(inv, []Sort{SInt}, SInt, "")
		st.Assume(And(eqT(w.SeqLen(yk), w.SeqLen(ks)), eqT(w.SeqLen(yv), w.SeqLen(ks)), eqT(w.SeqLen(vs), w.SeqLen(ks))))
		st.Assume(T(SBool, "(forall ((i$ Int)) (! (=> (and (<= 0 i$) (< i$ (len_Ref %[1]s))) (and (<= 0 (%[2]s i$)) (< (%[2]s i$) (len_Ref %[1]s)) (= (%[3]s (%[2]s i$)) i$) (= (at_Ref %[4]s i$) (at_Ref %[1]s (%[2]s i$))) (= (at_Ref %[5]s i$) (at_Ref %[6]s (%[2]s i$))))) :pattern ((at_Ref %[4]s i$)) :pattern ((at_Ref %[5]s i$))))",
			ks.S, perm, inv, yk.S, yv.S, vs.S))
		st.Assume(T(SBool, "(forall ((j$ Int)) (! (=> (and (<= 0 j$) (< j$ (len_Ref %[1]s))) (and (<= 0 (%[2]s j$)) (< (%[2]s j$) (len_Ref %[1]s)) (= (%[3]s (%[2]s j$)) j$))) :pattern ((%[2]s j$))))",
			ks.S, inv, perm))
		fv.nondet = append(fv.nondet, "sync.Map.Range (arbitrary order)")
		return iterInfo{val: fv.fresh("rangeiter", SRef), ys: yk, ys2: yv, pure: true}
	}
}

func calleeOf(info *types.Info, call *ast.CallExpr) types.Object {
	defer func() { recover() }()
	return typeutil.Callee(info, call)
}

func externPolicy(pkgPath, full string) string {
	switch pkgPath {
	case "strings", "strconv", "unicode", "unicode/utf8", "path", "path/filepath", "go/types", "go/token", "go/constant",
		"reflect", "errors", "slices", "maps", "regexp", "golang.org/x/text/cases", "golang.org/x/text/language",
		"github.com/octohelm/x/types", "github.com/octohelm/x/reflect", "github.com/octohelm/x/ptr", "github.com/octohelm/x/context", "go/format", "math":
		return "pure"
	case "time":
		if strings.HasPrefix(full, "(time.Duration).") {
			return "pure" // value methods of a duration: observers
		}
		return "unknown"
	case "go/ast":
		if strings.HasSuffix(full, ".Inspect") || strings.HasSuffix(full, ".Walk") || strings.HasSuffix(full, "SortImports") {
			return "unknown"
		}
		return "pure"
	case "bytes":
		if strings.Contains(full, "Buffer") {
			return "unknown"
		}
		return "pure"
	case "fmt":
		if strings.HasSuffix(full, "Sprintf") || strings.HasSuffix(full, "Sprint") || strings.HasSuffix(full, "Errorf") || strings.HasSuffix(full, "Sprintln") {
			return "pure"
		}
		if strings.HasSuffix(full, "Println") || strings.HasSuffix(full, "Printf") || strings.HasSuffix(full, "Print") {
			return "drop"
		}
		return "unknown"
	case "log/slog", "github.com/go-courier/logr", "log", "context":
		return "drop"
	}
	return "unknown"
}

func reg(name, doc string, h externHandler) {
	externs[name] = h
	externDoc[name] = doc
	if _, ok := externEffects[name]; !ok {
		externEffects[name] = "none"
	}
}

func eqT(a, b Term) Term { return App(SBool, "=", a, b) }

// uf declares an uninterpreted function of the given argument terms and applies it.
func (fv *FuncVerifier) uf(name string, res Sort, axioms string, args ...Term) Term {
	var sorts []Sort
	for _, a := range args {
		sorts = append(sorts, a.Sort)
	}
	fv.w.UFun(name, sorts, res, axioms)
	return App(res, name, args...)
}

func constString(env *Env, e ast.Expr) (string, bool) {
	if tv, ok := env.info.Types[e]; ok && tv.Value != nil && tv.Value.Kind() == constant.String {
		return constant.StringVal(tv.Value), true
	}
	return "", false
}

const strAxioms = `(define-fun str_hasprefix ((s Seq_Int) (p Seq_Int)) Bool (and (<= (len_Int p) (len_Int s)) (= (sub_Int s 0 (len_Int p)) p)))
(define-fun str_hassuffix ((s Seq_Int) (p Seq_Int)) Bool (and (<= (len_Int p) (len_Int s)) (= (sub_Int s (- (len_Int s) (len_Int p)) (len_Int s)) p)))
(declare-fun str_indexb (Seq_Int Int) Int)
(declare-fun str_lastindexb (Seq_Int Int) Int)
(assert (forall ((s Seq_Int) (c Int)) (! (and (<= (- 1) (str_indexb s c)) (< (str_indexb s c) (len_Int s)) (=> (>= (str_indexb s c) 0) (= (at_Int s (str_indexb s c)) c))) :pattern ((str_indexb s c)))))
(assert (forall ((s Seq_Int) (c Int) (j Int)) (! (=> (and (<= 0 j) (< j (len_Int s)) (= (at_Int s j) c)) (and (>= (str_indexb s c) 0) (<= (str_indexb s c) j))) :pattern ((str_indexb s c) (at_Int s j)))))
(assert (forall ((s Seq_Int) (c Int)) (! (and (<= (- 1) (str_lastindexb s c)) (< (str_lastindexb s c) (len_Int s)) (=> (>= (str_lastindexb s c) 0) (= (at_Int s (str_lastindexb s c)) c))) :pattern ((str_lastindexb s c)))))
(assert (forall ((s Seq_Int) (c Int) (j Int)) (! (=> (and (<= 0 j) (< j (len_Int s)) (= (at_Int s j) c)) (>= (str_lastindexb s c) j)) :pattern ((str_lastindexb s c) (at_Int s j)))))
(declare-fun str_index (Seq_Int Seq_Int) Int)
(declare-fun str_lastindex (Seq_Int Seq_Int) Int)
(assert (forall ((s Seq_Int) (n Seq_Int)) (! (and (<= (- 1) (str_index s n)) (=> (>= (str_index s n) 0) (and (<= (+ (str_index s n) (len_Int n)) (len_Int s)) (= (sub_Int s (str_index s n) (+ (str_index s n) (len_Int n))) n)))) :pattern ((str_index s n)))))
(assert (forall ((s Seq_Int) (n Seq_Int)) (! (and (<= (- 1) (str_lastindex s n)) (=> (>= (str_lastindex s n) 0) (and (<= (+ (str_lastindex s n) (len_Int n)) (len_Int s)) (= (sub_Int s (str_lastindex s n) (+ (str_lastindex s n) (len_Int n))) n)))) :pattern ((str_lastindex s n)))))
(declare-fun str_le (Seq_Int Seq_Int) Bool)
(assert (forall ((a Seq_Int)) (! (str_le a a) :pattern ((str_le a a)))))
(assert (forall ((a Seq_Int) (b Seq_Int)) (! (or (str_le a b) (str_le b a)) :pattern ((str_le a b)))))
(assert (forall ((a Seq_Int) (b Seq_Int)) (! (=> (and (str_le a b) (str_le b a)) (= a b)) :pattern ((str_le a b) (str_le b a)))))
(assert (forall ((a Seq_Int) (b Seq_Int) (c Seq_Int)) (! (=> (and (str_le a b) (str_le b c)) (str_le a c)) :pattern ((str_le a b) (str_le b c)))))
`

func (fv *FuncVerifier) strDefs() {
	fv.w.SeqSort(SInt)
	fv.w.AddDef("strings", []string{"str_hasprefix", "str_hassuffix", "str_indexb", "str_lastindexb", "str_index", "str_lastindex", "str_le"}, strAxioms)
}

func init() {
	seqInt := Sort("Seq_Int")
	// ---- strings ----
	reg("strings.HasPrefix", "HasPrefix(s,p) <=> len(p)<=len(s) && s[:len(p)]==p", func(fv *FuncVerifier, st *State, env *Env, c *CallCtx) []Term {
		fv.strDefs()
		return []Term{App(SBool, "str_hasprefix", c.args[0], c.args[1])}
	})
	reg("strings.HasSuffix", "HasSuffix(s,p) <=> len(p)<=len(s) && s[len(s)-len(p):]==p", func(fv *FuncVerifier, st *State, env *Env, c *CallCtx) []Term {
		fv.strDefs()
		return []Term{App(SBool, "str_hassuffix", c.args[0], c.args[1])}
	})
	idx := func(last bool) externHandler {
		return func(fv *FuncVerifier, st *State, env *Env, c *CallCtx) []Term {
			fv.strDefs()
			if s, ok := constString(env, c.call.Args[1]); ok && len(s) == 1 {
				name := "str_indexb"
				if last {
					name = "str_lastindexb"
				}
				return []Term{App(SInt, name, c.args[0], IntLit(int64(s[0])))}
			}
			name := "str_index"
			if last {
				name = "str_lastindex"
			}
			return []Term{App(SInt, name, c.args[0], c.args[1])}
		}
	}
	reg("strings.Index", "Index(s,n)=r: r==-1 or s[r:r+len(n)]==n; for 1-byte n: r is the FIRST such position, r==-1 iff none", idx(false))
	reg("strings.LastIndex", "LastIndex(s,n)=r: r==-1 or s[r:r+len(n)]==n; for 1-byte n: r is the LAST such position, r==-1 iff none", idx(true))
	reg("strings.IndexAny", "IndexAny(s,chars)=r: r==-1 and no byte of s is in chars, or 0<=r<len(s), s[r] in chars and no earlier byte is (chars: constant ASCII set)", func(fv *FuncVerifier, st *State, env *Env, c *CallCtx) []Term {
		cs, ok := constString(env, c.call.Args[1])
		if !ok {
			return []Term{fv.uf("str_indexany", SInt, "", c.args[0], c.args[1])}
		}
		for i := 0; i < len(cs); i++ {
			if cs[i] >= 128 {
				return []Term{fv.uf("str_indexany", SInt, "", c.args[0], c.args[1])}
			}
		}
		w := fv.w
		s := c.args[0]
		r := fv.uf("str_indexany_"+fmt.Sprintf("%x", cs), SInt, "", s)
		in := func(b Term) Term {
			var ds []Term
			for i := 0; i < len(cs); i++ {
				ds = append(ds, eqT(b, IntLit(int64(cs[i]))))
			}
			return Or(ds...)
		}
		st.Assume(And(Le(IntLit(-1), r), Lt(r, w.SeqLen(s)), Implies(Ge(r, IntLit(0)), in(w.SeqAt(s, r)))))
		j := Term{"j$", SInt}
		st.Assume(T(SBool, "(forall ((j$ Int)) (! (=> (and (<= 0 j$) (< j$ (len_Int %s)) %s) (and (>= %s 0) (<= %s j$))) :pattern ((at_Int %s j$))))",
			s.S, in(w.SeqAt(s, j)).S, r.S, r.S, s.S))
		return []Term{r}
	})
	reg("bytes.Fields", "bytes.Fields(b): a deterministic function of b (uninterpreted)", func(fv *FuncVerifier, st *State, env *Env, c *CallCtx) []Term {
		return []Term{fv.uf("bytes_fields", fv.w.SeqSort(seqInt), "", c.args[0])}
	})
	reg("strings.Join", "Join(xs,sep): a deterministic function of (xs,sep) (uninterpreted)", func(fv *FuncVerifier, st *State, env *Env, c *CallCtx) []Term {
		return []Term{fv.uf("str_join", seqInt, "", c.args[0], c.args[1])}
	})
	reg("strings.Split", "Split(s,sep): deterministic; for non-empty sep the result has at least one element", func(fv *FuncVerifier, st *State, env *Env, c *CallCtx) []Term {
		ss := fv.w.SeqSort(seqInt)
		r := fv.uf("str_split", ss, "", c.args[0], c.args[1])
		st.Assume(Implies(Gt(fv.w.SeqLen(c.args[1]), IntLit(0)), Ge(fv.w.SeqLen(r), IntLit(1))))
		return []Term{r}
	})
	reg("strings.SplitN", "SplitN(s,sep,n): deterministic; for non-empty sep and n>0: 1 <= len(result) <= n", func(fv *FuncVerifier, st *State, env *Env, c *CallCtx) []Term {
		ss := fv.w.SeqSort(seqInt)
		r := fv.uf("str_splitn", ss, "", c.args[0], c.args[1], c.args[2])
		st.Assume(Implies(And(Gt(fv.w.SeqLen(c.args[1]), IntLit(0)), Gt(c.args[2], IntLit(0))), And(Ge(fv.w.SeqLen(r), IntLit(1)), Le(fv.w.SeqLen(r), c.args[2]))))
		return []Term{r}
	})
	for _, n := range []string{"TrimSpace", "ToLower", "ToUpper"} {
		n := n
		reg("strings."+n, n+"(s): deterministic function of s (uninterpreted)", func(fv *FuncVerifier, st *State, env *Env, c *CallCtx) []Term {
			return []Term{fv.uf("str_"+strings.ToLower(n), seqInt, "", c.args[0])}
		})
	}
	reg("strings.Trim", "Trim(s,cutset)=r: r==s[a:b] for some 0<=a<=b<=len(s); for a 1-byte cutset c: r empty or (r[0]!=c and r[len-1]!=c)", func(fv *FuncVerifier, st *State, env *Env, c *CallCtx) []Term {
		w := fv.w
		r := fv.uf("str_trim", seqInt, "", c.args[0], c.args[1])
		a := fv.uf("str_trim_a", SInt, "", c.args[0], c.args[1])
		b := fv.uf("str_trim_b", SInt, "", c.args[0], c.args[1])
		st.Assume(And(Le(IntLit(0), a), Le(a, b), Le(b, w.SeqLen(c.args[0])), eqT(r, w.SeqSub(c.args[0], a, b)), eqT(w.SeqLen(r), Sub(b, a))))
		if s, ok := constString(env, c.call.Args[1]); ok && len(s) == 1 {
			ch := IntLit(int64(s[0]))
			st.Assume(Implies(Gt(w.SeqLen(r), IntLit(0)), And(Not(eqT(w.SeqAt(r, IntLit(0)), ch)), Not(eqT(w.SeqAt(r, Sub(w.SeqLen(r), IntLit(1))), ch)))))
		}
		return []Term{r}
	})
	reg("strings.TrimLeft", "TrimLeft(s,cutset)=r: r==s[a:] for some 0<=a<=len(s); for a 1-byte cutset c: every byte of s[:a] is c and (r empty or r[0]!=c)", func(fv *FuncVerifier, st *State, env *Env, c *CallCtx) []Term {
		w := fv.w
		a := fv.uf("str_trimleft_a", SInt, "", c.args[0], c.args[1])
		st.Assume(And(Le(IntLit(0), a), Le(a, w.SeqLen(c.args[0]))))
		r := w.SeqSub(c.args[0], a, w.SeqLen(c.args[0]))
		if s, ok := constString(env, c.call.Args[1]); ok && len(s) == 1 {
			ch := IntLit(int64(s[0]))
			st.Assume(Implies(Lt(a, w.SeqLen(c.args[0])), Not(eqT(w.SeqAt(c.args[0], a), ch))))
			st.Assume(T(SBool, "(forall ((j$ Int)) (! (=> (and (<= 0 j$) (< j$ %s)) (= (at_Int %s j$) %s)) :pattern ((at_Int %s j$))))", a.S, c.args[0].S, ch.S, c.args[0].S))
		}
		return []Term{r}
	})
	reg("strings.TrimPrefix", "TrimPrefix(s,p) = s[len(p):] if HasPrefix(s,p) else s", func(fv *FuncVerifier, st *State, env *Env, c *CallCtx) []Term {
		fv.strDefs()
		w := fv.w
		return []Term{Ite(App(SBool, "str_hasprefix", c.args[0], c.args[1]), w.SeqSub(c.args[0], w.SeqLen(c.args[1]), w.SeqLen(c.args[0])), c.args[0])}
	})
	reg("strings.Repeat", "Repeat(s,n): panics if n<0; deterministic", func(fv *FuncVerifier, st *State, env *Env, c *CallCtx) []Term {
		fv.oblige(st, env, "S", "extern-requires", Le(IntLit(0), c.args[1]), c.call.Lparen, "strings.Repeat count is non-negative")
		return []Term{fv.uf("str_repeat", seqInt, "", c.args[0], c.args[1])}
	})
	// ---- unicode / utf8 ----
	for _, n := range []string{"IsLower", "IsUpper", "IsDigit", "IsLetter", "IsGraphic", "IsSpace", "IsPunct"} {
		n := n
		reg("unicode."+n, "unicode."+n+": total, deterministic predicate on runes (uninterpreted)", func(fv *FuncVerifier, st *State, env *Env, c *CallCtx) []Term {
			return []Term{fv.uf("unicode_"+n, SBool, "", c.args[0])}
		})
	}
	reg("unicode/utf8.ValidString", "utf8.ValidString: total deterministic predicate; for valid s, string([]rune(s)) == s", func(fv *FuncVerifier, st *State, env *Env, c *CallCtx) []Term {
		fv.strFuncs("utf8valid")
		return []Term{App(SBool, "utf8valid", c.args[0])}
	})
	// ---- bytes.Buffer / strings.Builder: ghost content ----
	newBuf := func(fv *FuncVerifier, st *State, env *Env, c *CallCtx) []Term {
		r := fv.alloc(st, c.sig.Results().At(0).Type(), "buf")
		init := fv.w.SeqEmpty(seqInt)
		if len(c.args) > 0 && c.args[0].S != "null" && fv.w.IsSeq(c.args[0].Sort) {
			init = c.args[0]
		}
		fv.writeField(st, r, contentKey, seqInt, init)
		return []Term{r}
	}
	reg("bytes.NewBuffer", "NewBuffer(b): fresh buffer whose content is b", newBuf)
	reg("bytes.NewBufferString", "NewBufferString(s): fresh buffer whose content is s", newBuf)
	for _, typ := range []string{"(*bytes.Buffer)", "(*strings.Builder)"} {
		typ := typ
		wr := func(conv func(fv *FuncVerifier, a Term) Term) externHandler {
			return func(fv *FuncVerifier, st *State, env *Env, c *CallCtx) []Term {
				fv.oblige(st, env, "S", "nilderef", Not(eqT(c.recv, Null)), c.call.Lparen, "write to non-nil buffer")
				cur := fv.readField(st, c.recv, contentKey, seqInt)
				add := conv(fv, c.args[0])
				fv.writeField(st, c.recv, contentKey, seqInt, fv.w.SeqCat(cur, add))
				res := []Term{fv.w.SeqLen(add), Null}
				return res[:c.sig.Results().Len()]
			}
		}
		id := func(fv *FuncVerifier, a Term) Term { return a }
		for _, m := range []string{"WriteString", "Write"} {
			reg(typ+"."+m, "appends its argument to the buffer content; error is nil", wr(id))
			externEffects[typ+"."+m] = "content"
		}
		reg(typ+".WriteByte", "appends one byte to the content; error is nil", wr(func(fv *FuncVerifier, a Term) Term { return fv.w.SeqUnit(seqInt, a) }))
		externEffects[typ+".WriteByte"] = "content"
		reg(typ+".WriteRune", "appends the UTF-8 encoding of the rune to the content", wr(func(fv *FuncVerifier, a Term) Term {
			return App(seqInt, fv.strFuncs("rune2str"), a)
		}))
		externEffects[typ+".WriteRune"] = "content"
		get := func(fv *FuncVerifier, st *State, env *Env, c *CallCtx) []Term {
			fv.oblige(st, env, "S", "nilderef", Not(eqT(c.recv, Null)), c.call.Lparen, "read of non-nil buffer")
			return []Term{fv.readField(st, c.recv, contentKey, seqInt)}
		}
		reg(typ+".String", "returns the content", get)
		reg(typ+".Bytes", "returns the content", get)
		reg(typ+".Len", "returns len(content)", func(fv *FuncVerifier, st *State, env *Env, c *CallCtx) []Term {
			fv.oblige(st, env, "S", "nilderef", Not(eqT(c.recv, Null)), c.call.Lparen, "read of non-nil buffer")
			return []Term{fv.w.SeqLen(fv.readField(st, c.recv, contentKey, seqInt))}
		})
	}
	// ---- sort / slices / maps ----
	reg("sort.Strings", "sort.Strings(x): x becomes sorted(x): same length, a permutation, ascending by the total order str_le; for a duplicate-free enumeration of a key set it is THE sorted enumeration of that set", func(fv *FuncVerifier, st *State, env *Env, c *CallCtx) []Term {
		r := fv.sortedOf(c.args[0])
		fv.assignTo(st, env, c.call.Args[0], r, nil)
		return nil
	})
	reg("slices.Reverse", "slices.Reverse(s): s is replaced by its reversal (same length, s'[i] == s[len-1-i])", func(fv *FuncVerifier, st *State, env *Env, c *CallCtx) []Term {
		w := fv.w
		old := c.args[0]
		nv := fv.fresh("reversed", old.Sort)
		x := seqX(old.Sort)
		st.Assume(eqT(w.SeqLen(nv), w.SeqLen(old)))
		st.Assume(T(SBool, "(forall ((i$ Int)) (! (=> (and (<= 0 i$) (< i$ (len_%[1]s %[2]s))) (= (at_%[1]s %[2]s i$) (at_%[1]s %[3]s (- (- (len_%[1]s %[3]s) 1) i$)))) :pattern ((at_%[1]s %[2]s i$))))", x, nv.S, old.S))
		fv.assignTo(st, env, c.call.Args[0], nv, nil)
		return nil
	})
	reg("slices.Index", "slices.Index(s,v)=r: -1 <= r < len(s); r >= 0 ==> s[r] == v; deterministic", func(fv *FuncVerifier, st *State, env *Env, c *CallCtx) []Term {
		w := fv.w
		r := fv.uf("slices_index_"+seqX(c.args[0].Sort), SInt, "", c.args[0], c.args[1])
		st.Assume(And(Le(IntLit(-1), r), Lt(r, w.SeqLen(c.args[0]))))
		if w.IsSeq(c.args[1].Sort) {
			st.Assume(Implies(Ge(r, IntLit(0)), w.SeqEq(w.SeqAt(c.args[0], r), c.args[1])))
		} else {
			st.Assume(Implies(Ge(r, IntLit(0)), eqT(w.SeqAt(c.args[0], r), c.args[1])))
		}
		return []Term{r}
	})
	reg("sort.Sort", "sort.Sort(sort.StringSlice(x)): same as sort.Strings(x); other arguments: elements permuted arbitrarily", func(fv *FuncVerifier, st *State, env *Env, c *CallCtx) []Term {
		if conv, ok := ast.Unparen(c.call.Args[0]).(*ast.CallExpr); ok && len(conv.Args) == 1 {
			if tv, ok := env.info.Types[conv.Fun]; ok && tv.IsType() && types.TypeString(tv.Type, nil) == "sort.StringSlice" {
				x := fv.eval(st, &Env{info: env.info, binds: env.binds, spec: true}, conv.Args[0])
				fv.assignTo(st, env, conv.Args[0], fv.sortedOf(x), nil)
				return nil
			}
		}
		fv.havocMapArgs(st, env, c.call)
		return nil
	})
	reg("slices.Concat", "slices.Concat(a, b, ...): the concatenation of its arguments in order", func(fv *FuncVerifier, st *State, env *Env, c *CallCtx) []Term {
		if c.call.Ellipsis.IsValid() || len(c.args) == 0 {
			return fv.freshResults(st, c.sig)
		}
		r := c.args[0]
		for _, a := range c.args[1:] {
			r = fv.w.SeqCat(r, fv.coerce(a, r.Sort))
		}
		return []Term{r}
	})
	reg("slices.Sorted", "slices.Sorted(maps.Keys(m)) for a map with string keys: THE ascending duplicate-free enumeration of m's key set (uniqueness of the sorted enumeration of a set is a mathematical fact used as an axiom); other uses: uninterpreted", func(fv *FuncVerifier, st *State, env *Env, c *CallCtx) []Term {
		if inner, ok := ast.Unparen(c.call.Args[0]).(*ast.CallExpr); ok {
			if fn, ok := calleeOf(env.info, inner).(*types.Func); ok && fn.FullName() == "maps.Keys" {
				m := fv.eval(st, env, inner.Args[0])
				if fv.w.IsMap(m.Sort) && fv.w.mapKV[m.Sort][0] == "Seq_Int" {
					dom := App("(Array Seq_Int Bool)", "dom_"+mapX(m.Sort), m)
					r := fv.sortedKeys(dom)
					st.Assume(eqT(fv.w.SeqLen(r), fv.w.MapLen(m)))
					return []Term{r}
				}
			}
		}
		return fv.freshResults(st, c.sig)
	})
	reg("maps.Keys", "maps.Keys(m): an iterator over m's keys (only modelled under slices.Sorted)", func(fv *FuncVerifier, st *State, env *Env, c *CallCtx) []Term {
		return []Term{fv.fresh("keysiter", SRef)}
	})
	// ---- errors / fmt ----
	reg("errors.New", "errors.New: a non-nil error (deterministic in its text)", func(fv *FuncVerifier, st *State, env *Env, c *CallCtx) []Term {
		r := fv.uf("errors_new", SRef, "", c.args[0])
		st.Assume(Not(eqT(r, Null)))
		return []Term{r}
	})
	reg("errors.Is", "errors.Is(err,target): deterministic; Is(nil,t) is false for non-nil t; Is(e,e) holds for non-nil e", func(fv *FuncVerifier, st *State, env *Env, c *CallCtx) []Term {
		r := fv.uf("errors_is", SBool, "", c.args[0], c.args[1])
		st.Assume(Implies(And(eqT(c.args[0], Null), Not(eqT(c.args[1], Null))), Not(r)))
		st.Assume(Implies(And(eqT(c.args[0], c.args[1]), Not(eqT(c.args[0], Null))), r))
		return []Term{r}
	})
	reg("fmt.Errorf", "fmt.Errorf: a non-nil error, deterministic in (format, args); wraps its %w argument (errors.Is through the wrap is not modelled)", func(fv *FuncVerifier, st *State, env *Env, c *CallCtx) []Term {
		args := fv.packAny(c)
		r := fv.uf("fmt_errorf", SRef, "", c.args[0], args)
		st.Assume(Not(eqT(r, Null)))
		return []Term{r}
	})
	reg("fmt.Sprintf", "fmt.Sprintf: for a constant format using only %s with string arguments and %d with int arguments the exact concatenation (%d via the uninterpreted decimal function itoa); otherwise deterministic and uninterpreted", func(fv *FuncVerifier, st *State, env *Env, c *CallCtx) []Term {
		if t, ok := fv.simpleFormat(st, env, c, 0); ok {
			return []Term{t}
		}
		return []Term{fv.uf("fmt_sprintf", seqInt, "", c.args[0], fv.packAny(c))}
	})
	reg("fmt.Fprintf", "fmt.Fprintf(w, format, args): appends Sprintf(format,args) to w when w is a modelled buffer; error is nil", func(fv *FuncVerifier, st *State, env *Env, c *CallCtx) []Term {
		var txt Term
		if t, ok := fv.simpleFormat(st, env, c, 1); ok {
			txt = t
		} else {
			txt = fv.uf("fmt_sprintf", seqInt, "", c.args[1], fv.packAnyFrom(c, 2))
		}
		fv.writerAppend(st, env, c.args[0], txt, c.call)
		return []Term{fv.w.SeqLen(txt), Null}
	})
	externEffects["fmt.Fprintf"] = "content"
	reg("io.WriteString", "io.WriteString(w,s): appends s to w when w is a modelled buffer; error is nil", func(fv *FuncVerifier, st *State, env *Env, c *CallCtx) []Term {
		fv.writerAppend(st, env, c.args[0], c.args[1], c.call)
		return []Term{fv.w.SeqLen(c.args[1]), Null}
	})
	externEffects["io.WriteString"] = "content"
	// ---- go/ast.Inspect: runs the callback; its only effects are the callback's ----
	reg("go/ast.Inspect", "ast.Inspect(node, f): calls f some number of times (on the nodes of the tree, parents before children); has no effect of its own: exactly the variables and heap fields that f's body (and the local closures it calls) writes may change", func(fv *FuncVerifier, st *State, env *Env, c *CallCtx) []Term {
		if lit, ok := ast.Unparen(c.call.Args[1]).(*ast.FuncLit); ok {
			// `lit k invariant I`: established before the walk, kept by every run of the callback (proved on the
			// literal as a unit), hence true after the walk - however many nodes it visits, in whatever order
			var invs []*Clause
			if ord, has := fv.lits[lit]; has && fv.fn.Contr != nil {
				invs = fv.fn.Contr.Get("invariant", 0, ord)
				for _, cl := range invs {
					g := fv.evalClause(st, cl, c.call.Pos(), nil, nil)
					fv.obligeNamedAt(st, "F", fmt.Sprintf("cbinv[%s%d].entry", litPrefix(ord), cl.Ord), g, c.call.Pos(), "callback invariant holds before the walk: "+cl.Text)
				}
			}
			fv.havocWrites(st, env, lit.Body)
			fv.nondet = append(fv.nondet, "ast.Inspect callback effects")
			for _, cl := range invs {
				st.Assume(fv.evalClause(st, cl, c.call.Pos(), nil, nil))
			}
		} else {
			fv.havocAll(st)
		}
		return nil
	})
	externEffects["go/ast.Inspect"] = "closure"
	// go/types objects: the interface method (types.Object).M and the promoted concrete method (*types.object).M are
	// the same observer
	for _, m := range []string{"Name", "Parent", "Pkg", "Pos", "Type", "Exported", "Id", "String"} {
		m := m
		h := func(fv *FuncVerifier, st *State, env *Env, c *CallCtx) []Term {
			rs := fv.sortOf(c.sig.Results().At(0).Type())
			r := fv.uf("gotypes_obj_"+m, rs, "", c.recv)
			if m == "Type" && c.recvType != nil && types.TypeString(c.recvType, nil) == "*go/types.Func" && !strings.Contains(r.S, "$") {
				st.Assume(And(Not(eqT(r, Null)), eqT(App(SInt, "dyn", r), fv.w.Tag("*go/types.Signature"))))
			}
			return []Term{r}
		}
		reg("(*go/types.object)."+m, "types.Object."+m+"(): deterministic observer of a type-checker object (for a *types.Func, Type() is a non-nil *types.Signature)", h)
		reg("(go/types.Object)."+m, "types.Object."+m+"(): deterministic observer of a type-checker object", h)
	}
	// ---- sync.Map: ghost insertion lists ----
	reg("(*sync.Map).Store", "sync.Map.Store(k, v): records the pair (modelled as an append: callers store each key once — stated as a precondition where used)", func(fv *FuncVerifier, st *State, env *Env, c *CallCtx) []Term {
		sr := fv.w.SeqSort(SRef)
		ks := fv.readField(st, c.recv, "$syncmap:keys", sr)
		vs := fv.readField(st, c.recv, "$syncmap:vals", sr)
		fv.writeField(st, c.recv, "$syncmap:keys", sr, fv.w.SeqCat(ks, fv.w.SeqUnit(sr, c.args[0])))
		fv.writeField(st, c.recv, "$syncmap:vals", sr, fv.w.SeqCat(vs, fv.w.SeqUnit(sr, c.args[1])))
		return nil
	})
	externEffects["(*sync.Map).Store"] = "syncmap"
	reg("github.com/octohelm/x/ptr.Ptr", "ptr.Ptr(v): a fresh pointer whose target holds v", func(fv *FuncVerifier, st *State, env *Env, c *CallCtx) []Term {
		r := fv.alloc(st, c.sig.Results().At(0).Type(), "ptr")
		s := c.args[0].Sort
		if fv.w.IsStruct(s) {
			return []Term{r}
		}
		fv.writeField(st, r, "$deref:"+string(s), s, c.args[0])
		return []Term{r}
	})
	// ---- reflect ----
	reg("reflect.New", "reflect.New(T): a Value holding a FRESH non-nil pointer (to a zero T)", func(fv *FuncVerifier, st *State, env *Env, c *CallCtx) []Term {
		p := fv.fresh("reflnew", SRef)
		st.Assume(Not(eqT(p, Null)))
		al := fv.heapGet(st, "$ghost:alloc", "(Array Ref Bool)")
		st.Assume(Not(App(SBool, "select", al, p)))
		st.heap["$ghost:alloc"] = App(al.Sort, "store", al, p, True)
		v := fv.fresh("reflval", SRef)
		fv.w.UFun("rv_iface", []Sort{SRef}, SRef, "")
		st.Assume(eqT(App(SRef, "rv_iface", v), p))
		// ghost: the new object holds the zero value of its type until something is stored into it through reflection
		z := fv.heapGet(st, "$ghost:reflzero", "(Array Ref Bool)")
		st.heap["$ghost:reflzero"] = App(z.Sort, "store", z, p, True)
		return []Term{v}
	})
	for _, m := range []string{"Set", "SetInt", "SetUint", "SetFloat", "SetString", "SetBool", "SetBytes", "SetMapIndex", "SetLen", "SetCap", "SetPointer", "SetZero", "SetComplex", "SetIterKey", "SetIterValue"} {
		m := m
		reg("(reflect.Value)."+m, "reflect.Value."+m+": stores through reflection: no object is known to hold its zero value afterwards (ghost), other effects not modelled", func(fv *FuncVerifier, st *State, env *Env, c *CallCtx) []Term {
			st.heap["$ghost:reflzero"] = fv.fresh("reflzero", "(Array Ref Bool)")
			fv.nondet = append(fv.nondet, "reflect store")
			return nil
		})
		externEffects["(reflect.Value)."+m] = "fx"
	}
	reg("(reflect.Value).Interface", "Value.Interface(): deterministic; for reflect.New results the fresh pointer", func(fv *FuncVerifier, st *State, env *Env, c *CallCtx) []Term {
		fv.w.UFun("rv_iface", []Sort{SRef}, SRef, "")
		return []Term{App(SRef, "rv_iface", c.recv)}
	})
	// ---- os / io: ghost effect log ----
	openLike := func(fv *FuncVerifier, st *State, env *Env, c *CallCtx) []Term {
		fok := fv.fresh("file", SRef)
		err := fv.fresh("operr", SRef)
		ok := eqT(err, Null)
		// success: the file is created/truncated (effect), the handle is fresh and remembers its path; failure: no effect
		st.Assume(Not(eqT(fok, Null)))
		al := fv.heapGet(st, "$ghost:alloc", "(Array Ref Bool)")
		st.Assume(Not(App(SBool, "select", al, fok)))
		st.heap["$ghost:alloc"] = App(al.Sort, "store", al, fok, True)
		log := fv.ghostLog(st, "fx")
		// os.OpenFile without O_TRUNC keeps the old bytes beyond what is written: a different effect (spec_OpenKeep = 5)
		kind := IntLit(1)
		if c.fn != nil && c.fn.Name() == "OpenFile" && len(c.call.Args) >= 2 {
			kind = fv.fresh("openkind", SInt)
			st.Assume(Or(eqT(kind, IntLit(1)), eqT(kind, IntLit(5))))
			if tv, ok := env.info.Types[c.call.Args[1]]; ok && tv.Value != nil {
				if fl, exact := constant.Int64Val(constant.ToInt(tv.Value)); exact {
					if fl&int64(os.O_TRUNC) != 0 {
						kind = IntLit(1)
					} else {
						kind = IntLit(5)
					}
				}
			}
		}
		e := fv.w.StructMk(fv.w.elemOf[log.Sort], []Term{kind, c.args[0]})
		st.heap["$ghost:fx"] = Ite(ok, fv.w.SeqCat(log, fv.w.SeqUnit(log.Sort, e)), log)
		fv.writeField(st, fok, "$file:path", "Seq_Int", c.args[0])
		return []Term{Ite(ok, fok, Null), err}
	}
	reg("os.OpenFile", "os.OpenFile(name, flags): on success appends Open(name) (flags contain O_TRUNC) or OpenKeep(name) (they do not: old bytes survive) to the effect log and returns a fresh handle; on error has NO effect on the file (assumed)", openLike)
	reg("os.Create", "os.Create(name): like os.OpenFile with O_TRUNC|O_CREATE", openLike)
	externEffects["os.OpenFile"] = "fx"
	externEffects["os.Create"] = "fx"
	reg("os.RemoveAll", "os.RemoveAll(path): appends Remove(path) to the effect log (whether or not it reports an error)", func(fv *FuncVerifier, st *State, env *Env, c *CallCtx) []Term {
		fv.appendEffect(st, 3, c.args[0])
		return []Term{fv.fresh("rmerr", SRef)}
	})
	externEffects["os.RemoveAll"] = "fx"
	reg("os.ReadFile", "os.ReadFile: no effect; result arbitrary", func(fv *FuncVerifier, st *State, env *Env, c *CallCtx) []Term {
		return fv.freshResults(st, c.sig)
	})
	reg("strconv.Itoa", "strconv.Itoa: deterministic (uninterpreted decimal rendering)", func(fv *FuncVerifier, st *State, env *Env, c *CallCtx) []Term {
		return []Term{fv.uf("itoa", "Seq_Int", "", c.args[0])}
	})
	reg("golang.org/x/mod/sumdb/dirhash.HashDir", "dirhash.HashDir(dir, prefix, hash): the hash is a deterministic function of (dir, prefix) - i.e. of the directory CONTENTS, assumed - no effect; the error is arbitrary", func(fv *FuncVerifier, st *State, env *Env, c *CallCtx) []Term {
		// the same uninterpreted function as the spec function types.spec_hashDir(dir) of /repo's contracts
		return []Term{fv.uf("sp_pkg_types_spec_hashDir", "Seq_Int", "", c.args[0]), fv.fresh("hasherr", SRef)}
	})
	reg("go/types.NewPackage", "types.NewPackage(path, name): a non-nil *types.Package p with p.Path() == path (modelled as a deterministic function of its arguments; identity of the package object is not relied on)", func(fv *FuncVerifier, st *State, env *Env, c *CallCtx) []Term {
		r := fv.uf("types_newpackage", SRef, "", c.args[0], c.args[1])
		fv.w.UFun("ext_Pgo_types_Package_Path_0_Ref", []Sort{SRef}, "Seq_Int", "")
		st.Assume(Not(App(SBool, "=", r, Null)))
		st.Assume(App(SBool, "=", App("Seq_Int", "ext_Pgo_types_Package_Path_0_Ref", r), c.args[0]))
		return []Term{r}
	})
	reg("(*strings.Builder).Grow", "strings.Builder.Grow(n) panics if n < 0 (requires n >= 0); no visible effect otherwise", func(fv *FuncVerifier, st *State, env *Env, c *CallCtx) []Term {
		fv.oblige(st, env, "S", "extern-requires", Le(IntLit(0), c.args[0]), c.call.Lparen, "strings.Builder.Grow: n >= 0 (negative count panics)")
		return nil
	})
	reg("github.com/octohelm/x/types.FromTType", "typesutil.FromTType(t): the adaptor of a go/types type - it UNWRAPS an alias to the type it stands for (the alias name is lost). Precondition (naming-system contract of C09/C11, checked at every call in a function under contract): t is not a *types.Alias, whose identifier has to be rendered through the namer instead", func(fv *FuncVerifier, st *State, env *Env, c *CallCtx) []Term {
		fv.oblige(st, env, "S", "extern-requires", Not(App(SBool, "=", App(SInt, "dyn", c.args[0]), fv.w.Tag("*go/types.Alias"))), c.call.Lparen, "typesutil.FromTType: not for a *types.Alias (the adaptor unwraps it: the alias would be rendered as the type it stands for)")
		return []Term{fv.pureExt("github.com/octohelm/x/types.FromTType", SRef, c.args[0])}
	})
	reg("(github.com/octohelm/x/types.Type).String", "typesutil.Type.String(): the type spelled out by go/types / reflect - every named type inside it with its FULL package path, not through the file's namer. Precondition (the naming-system contract of C03/C11, checked at every call in a function under contract): the receiver is a named type or has no component types (kind not Array, Chan, Map, Pointer, Slice, Struct), so no package path can hide inside the text", func(fv *FuncVerifier, st *State, env *Env, c *CallCtx) []Term {
		kind := fv.pureExt("(github.com/octohelm/x/types.Type).Kind", SInt, c.recv)
		pkgPath := fv.pureExt("(github.com/octohelm/x/types.Type).PkgPath", "Seq_Int", c.recv)
		var leaf []Term
		for _, k := range []int64{17, 18, 21, 22, 23, 25} {
			leaf = append(leaf, Not(App(SBool, "=", kind, IntLit(k))))
		}
		fv.oblige(st, env, "S", "extern-requires", Or(Not(App(SBool, "=", fv.w.SeqLen(pkgPath), IntLit(0))), And(leaf...)), c.call.Lparen, "typesutil.Type.String(): only for a named type or a type without component types (otherwise package paths inside it bypass the namer and the import table)")
		return []Term{fv.pureExt("(github.com/octohelm/x/types.Type).String", "Seq_Int", c.recv)}
	})
	reg("(*bytes.Buffer).Grow", "bytes.Buffer.Grow(n) panics if n < 0 (requires n >= 0); no visible effect otherwise", func(fv *FuncVerifier, st *State, env *Env, c *CallCtx) []Term {
		fv.oblige(st, env, "S", "extern-requires", Le(IntLit(0), c.args[0]), c.call.Lparen, "bytes.Buffer.Grow: n >= 0 (negative count panics)")
		return nil
	})
	reg("path.Join", "path.Join: deterministic function of its elements", func(fv *FuncVerifier, st *State, env *Env, c *CallCtx) []Term {
		return []Term{fv.uf("path_join", "Seq_Int", "", fv.w.SeqLit(fv.w.SeqSort("Seq_Int"), c.args))}
	})
	reg("path/filepath.Join", "filepath.Join: deterministic function of its elements", func(fv *FuncVerifier, st *State, env *Env, c *CallCtx) []Term {
		return []Term{fv.uf("filepath_join", "Seq_Int", "", fv.w.SeqLit(fv.w.SeqSort("Seq_Int"), c.args))}
	})
	reg("os.IsNotExist", "os.IsNotExist: deterministic predicate on the error", func(fv *FuncVerifier, st *State, env *Env, c *CallCtx) []Term {
		return []Term{fv.uf("os_isnotexist", SBool, "", c.args[0])}
	})
	reg("(*os.File).Write", "File.Write: appends Write(path of the handle) to the effect log", func(fv *FuncVerifier, st *State, env *Env, c *CallCtx) []Term {
		fv.oblige(st, env, "S", "nilderef", Not(eqT(c.recv, Null)), c.call.Lparen, "write to non-nil *os.File")
		fv.appendEffect(st, 2, fv.readField(st, c.recv, "$file:path", "Seq_Int"))
		return []Term{fv.fresh("n", SInt), fv.fresh("werr", SRef)}
	})
	externEffects["(*os.File).Write"] = "fx"
	reg("(*os.File).Close", "File.Close: no modelled effect", func(fv *FuncVerifier, st *State, env *Env, c *CallCtx) []Term {
		return []Term{fv.fresh("cerr", SRef)}
	})
	reg("go/format.Node", "format.Node(dst, fset, node): writes (unspecified) text to dst: appends Write(path of dst) to the effect log and 'print' to the formatter pipeline; the text itself is the assumed contract E-fmt", func(fv *FuncVerifier, st *State, env *Env, c *CallCtx) []Term {
		fv.pipelineT(st, fv.w.StrLit("print"))
		fv.appendEffect(st, 2, fv.readField(st, c.args[0], "$file:path", "Seq_Int"))
		return []Term{fv.fresh("fmterr", SRef)}
	})
	externEffects["go/format.Node"] = "fx"
	reg("io.Copy", "io.Copy(dst, src) between in-memory buffers: appends src's content to dst's and drains src; the error is nil (bytes.Buffer reads and writes do not fail)", func(fv *FuncVerifier, st *State, env *Env, c *CallCtx) []Term {
		src := fv.readField(st, c.args[1], contentKey, "Seq_Int")
		fv.writerAppend(st, env, c.args[0], src, c.call)
		fv.writeField(st, c.args[1], contentKey, "Seq_Int", fv.w.SeqEmpty("Seq_Int"))
		return []Term{fv.w.SeqLen(src), Null}
	})
	externEffects["io.Copy"] = "content"
	reg("go/parser.ParseFile", "parser.ParseFile: deterministic in (filename, src, mode); no effect; exactly one of (file, err) is nil", func(fv *FuncVerifier, st *State, env *Env, c *CallCtx) []Term {
		f := fv.uf("parser_file", SRef, "", c.args[1], c.args[2], c.args[3])
		e := fv.uf("parser_err", SRef, "", c.args[1], c.args[2], c.args[3])
		st.Assume(eqT(eqT(f, Null), Not(eqT(e, Null))))
		if !env.spec {
			fv.pipelineT(st, fv.w.SeqCat(fv.w.StrLit("parse|"), fv.uf("itoa", "Seq_Int", "", c.args[3])))
			raw := fv.eval(st, &Env{info: env.info, binds: env.binds, names: env.names, old: env.old, oldB: env.oldB, entry: env.entry, spec: true}, c.call.Args[2])
			if raw.Sort == "Seq_Int" {
				st.heap["$ghost:parsed"] = raw
			} else {
				st.heap["$ghost:parsed"] = fv.fresh("parsedtext", "Seq_Int")
			}
			st.heap["$ghost:parsedName"] = c.args[1]
		}
		return []Term{f, e}
	})
	reg("go/ast.SortImports", "ast.SortImports: rewrites the syntax tree in place; recorded in the ghost formatter pipeline (its effect on the text is part of the assumed contract E-fmt)", func(fv *FuncVerifier, st *State, env *Env, c *CallCtx) []Term {
		fv.pipelineT(st, fv.w.StrLit("sortimports"))
		return nil
	})
	reg("mvdan.cc/gofumpt/format.File", "gofumpt format.File(fset, file, Options): rewrites the syntax tree in place; recorded in the ghost formatter pipeline together with Options.LangVersion and Options.ModulePath", func(fv *FuncVerifier, st *State, env *Env, c *CallCtx) []Term {
		w := fv.w
		t := w.StrLit("gofumpt|")
		if w.IsStruct(c.args[2].Sort) {
			t = w.SeqCat(w.SeqCat(w.SeqCat(t, w.StructGet(c.args[2], "LangVersion")), w.StrLit("|")), w.StructGet(c.args[2], "ModulePath"))
		}
		fv.pipelineT(st, t)
		return nil
	})
	reg("errors.As", "errors.As(err, &target): target receives an arbitrary value; deterministic result. For a go/scanner.ErrorList target (ASSUMED, go/scanner + go/parser): every entry is non-nil, its line number is >= 1 and - when the error comes from the parser.ParseFile call of this function - at most the number of lines (bytes.Split(src, \"\\n\")) of the text that was parsed", func(fv *FuncVerifier, st *State, env *Env, c *CallCtx) []Term {
		if u, ok := ast.Unparen(c.call.Args[1]).(*ast.UnaryExpr); ok {
			if t := fv.typeOf(env, u.X); t != nil {
				nv := fv.fresh("astarget", fv.sortOf(t))
				if types.TypeString(t, nil) == "go/scanner.ErrorList" && !env.spec {
					// go/scanner: the entries of an error list are non-nil, their positions are 1-based; an error of
					// parser.ParseFile lies inside the text that was parsed (at most one line past... no: within its lines)
					w := fv.w
					el := T(SRef, "(at_Ref %s i$)", nv.S)
					facts := []Term{Not(eqT(el, Null))}
					if sl, ok := t.Underlying().(*types.Slice); ok {
						if pt, ok := sl.Elem().Underlying().(*types.Pointer); ok {
							if stt, ok := pt.Elem().Underlying().(*types.Struct); ok {
								for i := 0; i < stt.NumFields(); i++ {
									if stt.Field(i).Name() == "Pos" {
										pos := fv.readField(st, el, fieldKey(sl.Elem(), "Pos"), fv.sortOf(stt.Field(i).Type()))
										if w.IsStruct(pos.Sort) {
											line := w.StructGet(pos, "Line")
											facts = append(facts, Le(IntLit(1), line))
											if parsed, ok := st.heap["$ghost:parsed"]; ok {
												lines := fv.uf("bytes_split", w.SeqSort(seqInt), "", parsed, w.StrLit("\n"))
												facts = append(facts, Le(line, w.SeqLen(lines)))
											}
										}
									}
								}
							}
						}
					}
					st.Assume(T(SBool, "(forall ((i$ Int)) (! (=> (and (<= 0 i$) (< i$ (len_Ref %[1]s))) %[2]s) :pattern ((at_Ref %[1]s i$))))", nv.S, And(facts...).S))
				}
				fv.assignTo(st, env, u.X, nv, nil)
			}
		}
		return []Term{fv.fresh("asok", SBool)}
	})
	reg("bytes.Split", "bytes.Split(s, sep): a deterministic function of (s, sep); for non-empty sep at least one element", func(fv *FuncVerifier, st *State, env *Env, c *CallCtx) []Term {
		r := fv.uf("bytes_split", fv.w.SeqSort(seqInt), "", c.args[0], c.args[1])
		st.Assume(Implies(Gt(fv.w.SeqLen(c.args[1]), IntLit(0)), Ge(fv.w.SeqLen(r), IntLit(1))))
		return []Term{r}
	})
	// ---- text/scanner: ghost source (rune sequence) and cursor ----
	reg("(*text/scanner.Scanner).Init", "Scanner.Init(r): the scanner will deliver the runes of everything r contains ([]rune(content), invalid bytes as U+FFFD); ASSUMES the content does not start with U+FEFF (a leading BOM is skipped by text/scanner: known finding for templates)", func(fv *FuncVerifier, st *State, env *Env, c *CallCtx) []Term {
		fv.oblige(st, env, "S", "nilderef", Not(eqT(c.recv, Null)), c.call.Lparen, "method call on non-nil *scanner.Scanner")
		content := fv.readField(st, c.args[0], contentKey, "Seq_Int")
		fv.writeField(st, c.recv, "$scan:src", "Seq_Int", App("Seq_Int", fv.strFuncs("str2runes"), content))
		fv.writeField(st, c.recv, "$scan:pos", SInt, IntLit(0))
		return []Term{c.recv}
	})
	externEffects["(*text/scanner.Scanner).Init"] = "scanner"
	reg("(*text/scanner.Scanner).Next", "Scanner.Next(): returns the rune at the cursor and advances it; at the end of the source returns EOF (-1) and the cursor stays one past the end", func(fv *FuncVerifier, st *State, env *Env, c *CallCtx) []Term {
		fv.oblige(st, env, "S", "nilderef", Not(eqT(c.recv, Null)), c.call.Lparen, "method call on non-nil *scanner.Scanner")
		w := fv.w
		src := fv.readField(st, c.recv, "$scan:src", "Seq_Int")
		pos := fv.readField(st, c.recv, "$scan:pos", SInt)
		inRange := Lt(pos, w.SeqLen(src))
		r := Ite(inRange, w.SeqAt(src, pos), IntLit(-1))
		fv.writeField(st, c.recv, "$scan:pos", SInt, Ite(inRange, Add(pos, IntLit(1)), Add(w.SeqLen(src), IntLit(1))))
		return []Term{r}
	})
	externEffects["(*text/scanner.Scanner).Next"] = "scanner"
	// ---- regexp ----
	reg("(*regexp.Regexp).FindStringSubmatch", "FindStringSubmatch(s): deterministic in (regexp, s); the result is empty (no match) or has 1+NumSubexp elements; nothing is assumed about the groups here (pattern-specific facts are `assume` clauses of the caller)", func(fv *FuncVerifier, st *State, env *Env, c *CallCtx) []Term {
		fv.oblige(st, env, "S", "nilderef", Not(eqT(c.recv, Null)), c.call.Lparen, "method call on non-nil *regexp.Regexp")
		ss := fv.w.SeqSort("Seq_Int")
		return []Term{fv.uf("re_findsubmatch", ss, "", c.recv, c.args[0])}
	})
	reg("(*regexp.Regexp).MatchString", "MatchString(s): deterministic predicate in (regexp, s)", func(fv *FuncVerifier, st *State, env *Env, c *CallCtx) []Term {
		fv.oblige(st, env, "S", "nilderef", Not(eqT(c.recv, Null)), c.call.Lparen, "method call on non-nil *regexp.Regexp")
		return []Term{fv.uf("re_match", SBool, "", c.recv, c.args[0])}
	})
	reg("(*regexp.Regexp).ReplaceAllString", "ReplaceAllString(s, repl): deterministic in (regexp, s, repl)", func(fv *FuncVerifier, st *State, env *Env, c *CallCtx) []Term {
		fv.oblige(st, env, "S", "nilderef", Not(eqT(c.recv, Null)), c.call.Lparen, "method call on non-nil *regexp.Regexp")
		return []Term{fv.uf("re_replaceall", "Seq_Int", "", c.recv, c.args[0], c.args[1])}
	})
	// ---- go/types observers with range facts ----
	for _, n := range []string{"(*go/types.Tuple).Len", "(*go/types.Named).NumMethods", "(*go/types.Struct).NumFields", "(*go/types.TypeParamList).Len"} {
		n := n
		reg(n, "deterministic observer, result >= 0 (a nil *Tuple has Len 0)", func(fv *FuncVerifier, st *State, env *Env, c *CallCtx) []Term {
			f := "ext_" + sanitize(n)
			r := fv.uf(f, SInt, fmt.Sprintf("(assert (forall ((t$ Ref)) (! (<= 0 (%s t$)) :pattern ((%s t$)))))\n", f, f), c.recv)
			return []Term{r}
		})
	}
	for _, n := range []string{"(*go/types.Tuple).At", "(*go/types.Named).Method", "(*go/types.Struct).Field", "(*go/types.TypeParamList).At"} {
		n := n
		lenName := map[string]string{"(*go/types.Tuple).At": "(*go/types.Tuple).Len", "(*go/types.Named).Method": "(*go/types.Named).NumMethods",
			"(*go/types.Struct).Field": "(*go/types.Struct).NumFields", "(*go/types.TypeParamList).At": "(*go/types.TypeParamList).Len"}[n]
		reg(n, "requires 0 <= i < Len (panics otherwise); deterministic observer, non-nil result", func(fv *FuncVerifier, st *State, env *Env, c *CallCtx) []Term {
			lf := "ext_" + sanitize(lenName)
			ln := fv.uf(lf, SInt, fmt.Sprintf("(assert (forall ((t$ Ref)) (! (<= 0 (%s t$)) :pattern ((%s t$)))))\n", lf, lf), c.recv)
			fv.oblige(st, env, "S", "extern-requires", And(Le(IntLit(0), c.args[0]), Lt(c.args[0], ln)), c.call.Lparen, n+": index within [0, Len)")
			f := "ext_" + sanitize(n)
			r := fv.uf(f, SRef, fmt.Sprintf("(assert (forall ((t$ Ref) (i$ Int)) (! (=> (and (<= 0 i$) (< i$ (%s t$))) (not (= (%s t$ i$) null))) :pattern ((%s t$ i$)))))\n", lf, f, f), c.recv, c.args[0])
			return []Term{r}
		})
	}
}

// sortedOf: the ascending (str_le) permutation of a sequence of strings.
func (fv *FuncVerifier) sortedOf(x Term) Term {
	fv.strDefs()
	ss := fv.w.SeqSort("Seq_Int")
	ax := `(declare-fun sorted_perm (Seq_Seq_Int Int) Int)
(declare-fun sorted_inv (Seq_Seq_Int Int) Int)
(assert (forall ((x Seq_Seq_Int)) (! (= (len_Seq_Int (str_sorted x)) (len_Seq_Int x)) :pattern ((str_sorted x)))))
(assert (forall ((x Seq_Seq_Int) (i Int)) (! (=> (and (<= 0 i) (< i (len_Seq_Int x))) (and (<= 0 (sorted_perm x i)) (< (sorted_perm x i) (len_Seq_Int x)) (= (at_Seq_Int (str_sorted x) i) (at_Seq_Int x (sorted_perm x i))) (= (sorted_inv x (sorted_perm x i)) i))) :pattern ((at_Seq_Int (str_sorted x) i)))))
(assert (forall ((x Seq_Seq_Int) (j Int)) (! (=> (and (<= 0 j) (< j (len_Seq_Int x))) (and (<= 0 (sorted_inv x j)) (< (sorted_inv x j) (len_Seq_Int x)) (= (sorted_perm x (sorted_inv x j)) j))) :pattern ((sorted_inv x j)))))
(assert (forall ((x Seq_Seq_Int) (i Int) (j Int)) (! (=> (and (<= 0 i) (<= i j) (< j (len_Seq_Int x))) (str_le (at_Seq_Int (str_sorted x) i) (at_Seq_Int (str_sorted x) j))) :pattern ((at_Seq_Int (str_sorted x) i) (at_Seq_Int (str_sorted x) j)))))
`
	fv.w.UFun("str_sorted", []Sort{ss}, ss, ax)
	if _, ok := fv.w.defs["ufun:str_sorted"]; ok {
		d := fv.w.defs["ufun:str_sorted"]
		if len(d.Syms) == 1 {
			d.Syms = append(d.Syms, "sorted_perm", "sorted_inv")
			fv.w.bySym["sorted_perm"] = d
			fv.w.bySym["sorted_inv"] = d
		}
	}
	return App(ss, "str_sorted", x)
}

// sortedKeys: THE ascending duplicate-free enumeration of a set of strings (map domain).
func (fv *FuncVerifier) sortedKeys(dom Term) Term {
	fv.strDefs()
	fv.sortedOf(fv.w.SeqEmpty(fv.w.SeqSort("Seq_Int")))
	ss := fv.w.SeqSort("Seq_Int")
	ax := `(declare-fun skidx ((Array Seq_Int Bool) Seq_Int) Int)
(declare-fun enum_str (Seq_Seq_Int (Array Seq_Int Bool)) Bool)
(assert (forall ((d (Array Seq_Int Bool)) (i Int)) (! (=> (and (<= 0 i) (< i (len_Seq_Int (sortedkeys d)))) (and (select d (at_Seq_Int (sortedkeys d) i)) (= (skidx d (at_Seq_Int (sortedkeys d) i)) i))) :pattern ((at_Seq_Int (sortedkeys d) i)))))
(assert (forall ((d (Array Seq_Int Bool)) (k Seq_Int)) (! (=> (select d k) (and (<= 0 (skidx d k)) (< (skidx d k) (len_Seq_Int (sortedkeys d))) (= (at_Seq_Int (sortedkeys d) (skidx d k)) k))) :pattern ((skidx d k)) :pattern ((sortedkeys d) (select d k)))))
(assert (forall ((d (Array Seq_Int Bool)) (i Int) (j Int)) (! (=> (and (<= 0 i) (< i j) (< j (len_Seq_Int (sortedkeys d)))) (and (str_le (at_Seq_Int (sortedkeys d) i) (at_Seq_Int (sortedkeys d) j)) (not (= (at_Seq_Int (sortedkeys d) i) (at_Seq_Int (sortedkeys d) j))))) :pattern ((at_Seq_Int (sortedkeys d) i) (at_Seq_Int (sortedkeys d) j)))))
(assert (forall ((ks Seq_Seq_Int) (d (Array Seq_Int Bool))) (! (=> (enum_str ks d) (= (str_sorted ks) (sortedkeys d))) :pattern ((enum_str ks d)))))
`
	fv.w.UFun("sortedkeys", []Sort{"(Array Seq_Int Bool)"}, ss, ax)
	if d := fv.w.defs["ufun:sortedkeys"]; len(d.Syms) == 1 {
		d.Syms = append(d.Syms, "skidx", "enum_str")
		fv.w.bySym["skidx"] = d
		fv.w.bySym["enum_str"] = d
	}
	return App(ss, "sortedkeys", dom)
}

// pipelineT records a formatter step in the ghost pipeline log (C01).
func (fv *FuncVerifier) pipelineT(st *State, step Term) {
	seq := fv.w.SeqSort("Seq_Int")
	log := fv.heapGet(st, "$ghost:pipeline", seq)
	st.heap["$ghost:pipeline"] = fv.w.SeqCat(log, fv.w.SeqUnit(seq, step))
}

// packAny boxes the variadic ...any tail into one Seq_Ref term.
func (fv *FuncVerifier) packAny(c *CallCtx) Term { return fv.packAnyFrom(c, 1) }

func (fv *FuncVerifier) packAnyFrom(c *CallCtx, from int) Term {
	sr := fv.w.SeqSort(SRef)
	if c.call.Ellipsis.IsValid() && len(c.args) > from {
		return c.args[len(c.args)-1]
	}
	var elems []Term
	for _, a := range c.args[from:] {
		elems = append(elems, a) // already boxed by convert()
	}
	return fv.w.SeqLit(sr, elems)
}

// simpleFormat expands a constant format made only of literal text, %s (string args) and %d (int args).
func (fv *FuncVerifier) simpleFormat(st *State, env *Env, c *CallCtx, fmtIdx int) (Term, bool) {
	f, ok := constString(env, c.call.Args[fmtIdx])
	if !ok || c.call.Ellipsis.IsValid() {
		return Term{}, false
	}
	w := fv.w
	out := w.SeqEmpty("Seq_Int")
	argi := fmtIdx + 1
	lit := ""
	flush := func() {
		if lit != "" {
			out = w.SeqCat(out, w.StrLit(lit))
			lit = ""
		}
	}
	for i := 0; i < len(f); i++ {
		if f[i] != '%' {
			lit += string(f[i])
			continue
		}
		if i+1 >= len(f) {
			return Term{}, false
		}
		i++
		switch f[i] {
		case '%':
			lit += "%"
		case 's', 'd':
			if argi >= len(c.call.Args) {
				return Term{}, false
			}
			at := fv.typeOf(env, c.call.Args[argi])
			if at == nil {
				return Term{}, false
			}
			b, isBasic := at.Underlying().(*types.Basic)
			if !isBasic {
				return Term{}, false
			}
			// re-evaluate the raw (unboxed) argument
			raw := fv.eval(st, &Env{info: env.info, binds: env.binds, names: env.names, old: env.old, oldB: env.oldB, entry: env.entry, spec: true}, c.call.Args[argi])
			flush()
			if f[i] == 's' && b.Info()&types.IsString != 0 {
				out = w.SeqCat(out, raw)
			} else if f[i] == 'd' && b.Info()&types.IsInteger != 0 {
				out = w.SeqCat(out, fv.uf("itoa", "Seq_Int", "", raw))
			} else {
				return Term{}, false
			}
			argi++
		default:
			return Term{}, false
		}
	}
	flush()
	if argi != len(c.call.Args) {
		return Term{}, false
	}
	return out, true
}

// writerAppend appends text to the ghost content of an io.Writer value (a modelled buffer, or anything else: dropped with a note).
func (fv *FuncVerifier) writerAppend(st *State, env *Env, wr Term, txt Term, call *ast.CallExpr) {
	cur := fv.readField(st, wr, contentKey, "Seq_Int")
	fv.writeField(st, wr, contentKey, "Seq_Int", fv.w.SeqCat(cur, txt))
}

func init() {
	_ = fmt.Sprint
}
