package main

import (
	"fmt"
	"go/ast"
	"go/parser"
	"go/token"
	"go/types"
	"golang.org/x/tools/go/types/typeutil"
	"os"
	"regexp"
	"slices"
	"sort"
	"strings"
)

type clauseKey struct {
	cl    *Clause
	pos   token.Pos
	noWit bool
}

type checkedClause struct {
	expr   ast.Expr
	info   *types.Info
	params map[string]types.Object // wrapper parameters by name
	err    error
}

var clauseCache = map[clauseKey]*checkedClause{}

// qualifierAt renders types with the import names visible in the file containing pos.
func qualifierAt(fi *FuncInfo, pos token.Pos) types.Qualifier {
	f := fileOf(fi.Pkg, pos)
	return func(p *types.Package) string {
		if p == fi.Pkg.Types {
			return ""
		}
		if f != nil {
			for _, imp := range f.Imports {
				path := strings.Trim(imp.Path.Value, `"`)
				if path == p.Path() {
					if imp.Name != nil {
						return imp.Name.Name
					}
					return p.Name()
				}
			}
		}
		return p.Name()
	}
}

// checkClause desugars, parses and type-checks a clause at pos inside function fi. ghostTypes gives the Go types
// of the ghost names (result, it1, ...) that the clause may mention.
func checkClause(prog *Program, fi *FuncInfo, cl *Clause, pos token.Pos, ghostTypes map[string]types.Type) *checkedClause {
	key := clauseKey{cl, pos, desugarNoWitness}
	if c, ok := clauseCache[key]; ok {
		return c
	}
	cc := &checkedClause{params: map[string]types.Object{}}
	clauseCache[key] = cc
	body, err := desugar(cl.Text)
	if err != nil {
		cc.err = err
		return cc
	}
	used := identsIn(body)
	var names []string
	for n := range ghostTypes {
		if used[n] {
			names = append(names, n)
		}
	}
	sort.Strings(names)
	q := qualifierAt(fi, pos)
	var params []string
	for _, n := range names {
		params = append(params, n+" "+types.TypeString(ghostTypes[n], q))
	}
	resType := "bool"
	if cl.Kind == "decreases" {
		resType = "int"
	}
	if cl.Kind == "hint" {
		resType = "any"
	}
	if cl.Kind == "yields" || cl.Kind == "yields2" {
		resType = "any"
	}
	src := fmt.Sprintf("func(%s) %s { return %s }", strings.Join(params, ", "), resType, body)
	expr, err := parser.ParseExprFrom(token.NewFileSet(), "clause", src, 0)
	if err != nil {
		cc.err = fmt.Errorf("parse: %v in %q", err, src)
		return cc
	}
	info := &types.Info{Types: map[ast.Expr]types.TypeAndValue{}, Defs: map[*ast.Ident]types.Object{}, Uses: map[*ast.Ident]types.Object{},
		Selections: map[*ast.SelectorExpr]*types.Selection{}, Implicits: map[ast.Node]types.Object{}, Instances: map[*ast.Ident]types.Instance{}}
	if err := types.CheckExpr(prog.Fset, fi.Pkg.Types, pos, expr, info); err != nil {
		// rename recovery: a clause names a local variable (or a named result) that no longer exists. If the delivered
		// tree had that variable and the current function has an unmatched variable of the same type in the same
		// relative order, the clause is re-stated over the renamed variable (and then has to be PROVED like any other:
		// a wrong guess can only make the proof fail).
		for tries := 0; err != nil && tries < 12; tries++ {
			m := undefinedRe.FindStringSubmatch(err.Error())
			pkgUse := false
			if m == nil {
				// a parameter that shadowed an imported package was renamed: the bare name now denotes the package
				if m = pkgUseRe.FindStringSubmatch(err.Error()); m != nil {
					pkgUse = true
				}
			}
			if m == nil {
				break
			}
			to, ok := renameFor(prog, fi, m[1], pos, cl.Loop > 0)
			if !ok {
				break
			}
			if pkgUse {
				body = bareIdentRe(m[1]).ReplaceAllString(body, "${1}"+to+"${2}")
			} else {
				body = replaceIdent(body, m[1], to)
			}
			// the renamed clause may now mention a ghost name (result, result0 ...) it did not mention before
			used2 := identsIn(body)
			params = nil
			var names2 []string
			for n := range ghostTypes {
				if used2[n] {
					names2 = append(names2, n)
				}
			}
			sort.Strings(names2)
			for _, n := range names2 {
				params = append(params, n+" "+types.TypeString(ghostTypes[n], q))
			}
			src = fmt.Sprintf("func(%s) %s { return %s }", strings.Join(params, ", "), resType, body)
			var perr error
			expr, perr = parser.ParseExprFrom(token.NewFileSet(), "clause", src, 0)
			if perr != nil {
				break
			}
			info = &types.Info{Types: map[ast.Expr]types.TypeAndValue{}, Defs: map[*ast.Ident]types.Object{}, Uses: map[*ast.Ident]types.Object{},
				Selections: map[*ast.SelectorExpr]*types.Selection{}, Implicits: map[ast.Node]types.Object{}, Instances: map[*ast.Ident]types.Instance{}}
			err = types.CheckExpr(prog.Fset, fi.Pkg.Types, pos, expr, info)
			if err == nil {
				renameNotes[fi.Key+": clause re-stated after a rename: "+m[1]+" -> "+to] = true
				cl.Renamed = true
			}
		}
		if err != nil {
			cc.err = fmt.Errorf("type-check: %v in %q", err, src)
			return cc
		}
	}
	lit := expr.(*ast.FuncLit)
	for _, f := range lit.Type.Params.List {
		for _, n := range f.Names {
			cc.params[n.Name] = info.Defs[n]
		}
	}
	cc.expr = lit.Body.List[0].(*ast.ReturnStmt).Results[0]
	cc.info = info
	return cc
}

var pkgUseRe = regexp.MustCompile(`use of package ([A-Za-z_][A-Za-z0-9_]*) not in selector`)

// bareIdentRe: occurrences of name that are neither a selector's field nor the base of a selector (name.X stays).
func bareIdentRe(name string) *regexp.Regexp {
	return regexp.MustCompile(`(^|[^A-Za-z0-9_.])` + regexp.QuoteMeta(name) + `($|[^A-Za-z0-9_.])`)
}

var undefinedRe = regexp.MustCompile(`undefined: ([A-Za-z_][A-Za-z0-9_]*)`)

// renameNotes collects the renames applied (reported in evidence notes).
var renameNotes = map[string]bool{}

// localInfo: one variable of a function as recorded in the baseline (declaration order).
type localInfo struct {
	Name string `json:"n"`
	Type string `json:"t"`
	Role string `json:"r"` // param | result<i> | local
}

// baselineLocals: variables of every function under contract on the delivered tree (from /verif/baseline).
var baselineLocals map[string][]localInfo

// baselineLoops: per function under contract on the delivered tree, {loops of its own, loops incl. inlined helpers}.
var baselineLoops map[string][2]int

// localsOf lists the variables a function declares, in source order.
func localsOf(fi *FuncInfo) []localInfo {
	if fi == nil || fi.Decl == nil {
		return nil
	}
	info := fi.Pkg.TypesInfo
	q := func(p *types.Package) string { return p.Name() }
	var out []localInfo
	seen := map[types.Object]bool{}
	add := func(id *ast.Ident, role string) {
		if id == nil || id.Name == "_" {
			return
		}
		if v, ok := info.Defs[id].(*types.Var); ok && !v.IsField() && !seen[v] {
			seen[v] = true
			out = append(out, localInfo{Name: id.Name, Type: types.TypeString(v.Type(), q), Role: role})
		}
	}
	fields := func(fl *ast.FieldList, role string) {
		if fl == nil {
			return
		}
		i := 0
		for _, f := range fl.List {
			for _, n := range f.Names {
				r := role
				if role == "result" {
					r = fmt.Sprintf("result%d", i)
				}
				add(n, r)
				i++
			}
			if len(f.Names) == 0 {
				i++
			}
		}
	}
	fields(fi.Decl.Recv, "param")
	fields(fi.Decl.Type.Params, "param")
	fields(fi.Decl.Type.Results, "result")
	if fi.Decl.Body != nil {
		ast.Inspect(fi.Decl.Body, func(n ast.Node) bool {
			if id, ok := n.(*ast.Ident); ok {
				add(id, "local")
			}
			return true
		})
	}
	return out
}

var renameCache = map[string]map[string]string{}

// renameFor: what the variable `old` of the delivered tree is called in the current function, if that can be told.
func renameFor(prog *Program, fi *FuncInfo, old string, pos token.Pos, inLoop bool) (string, bool) {
	// the clause may be evaluated inside a helper the function calls (a loop that was moved into an extracted helper):
	// then the candidates are the helper's variables
	scopeFn := fi
	if fi.Decl != nil && (pos < fi.Decl.Pos() || pos >= fi.Decl.End()) {
		for _, h := range prog.Funcs {
			if h.Pkg == fi.Pkg && h.Decl != nil && h.Decl.Body != nil && !h.VarInit && pos >= h.Decl.Pos() && pos < h.Decl.End() {
				scopeFn = h
			}
		}
	}
	ckey := fmt.Sprintf("%s@%s@%v", fi.Key, scopeFn.Key, inLoop)
	m, ok := renameCache[ckey]
	if !ok {
		m = map[string]string{}
		renameCache[ckey] = m
		was := baselineLocals[fi.Key]
		now := localsOf(scopeFn)
		nowNames := map[string]bool{}
		for _, l := range now {
			nowNames[l.Name] = true
		}
		wasNames := map[string]bool{}
		for _, l := range was {
			wasNames[l.Name] = true
		}
		nres := 0
		if fi.Obj != nil {
			nres = fi.Obj.Type().(*types.Signature).Results().Len()
		}
		// unmatched variables, grouped by type, paired in declaration order
		goneBy := map[string][]localInfo{}
		newBy := map[string][]localInfo{}
		for _, l := range was {
			if !nowNames[l.Name] {
				goneBy[l.Type] = append(goneBy[l.Type], l)
			}
		}
		for _, l := range now {
			if !wasNames[l.Name] {
				newBy[l.Type] = append(newBy[l.Type], l)
			}
		}
		for t, gone := range goneBy {
			fresh := append([]localInfo(nil), newBy[t]...)
			var rest []localInfo
			asResult := func(g localInfo) {
				// a named result that is gone: the ghost names result / result<i> denote the same value
				if nres == 1 {
					m[g.Name] = "result"
				} else {
					m[g.Name] = g.Role
				}
			}
			for _, g := range gone {
				if strings.HasPrefix(g.Role, "result") && (!inLoop || len(fresh) == 0) {
					asResult(g)
					continue
				}
				// (inside a loop the value lives in a variable: a named result turned into a local accumulator)
				rest = append(rest, g)
			}
			// pair by name similarity first (longest common substring, case-insensitive), then by declaration order
			for len(rest) > 0 && len(fresh) > 0 {
				bi, bj, best := -1, -1, 1
				for i, g := range rest {
					for j, f := range fresh {
						if sc := commonSubstr(strings.ToLower(g.Name), strings.ToLower(f.Name)); sc > best {
							bi, bj, best = i, j, sc
						}
					}
				}
				if bi < 0 {
					break
				}
				m[rest[bi].Name] = fresh[bj].Name
				rest = append(rest[:bi], rest[bi+1:]...)
				fresh = append(fresh[:bj], fresh[bj+1:]...)
			}
			for i, g := range rest {
				if i < len(fresh) {
					m[g.Name] = fresh[i].Name
				}
			}
		}
	}
	to, ok := m[old]
	return to, ok
}

// commonSubstr: length of the longest common substring of a and b.
func commonSubstr(a, b string) int {
	best := 0
	for i := 0; i < len(a); i++ {
		for j := 0; j < len(b); j++ {
			k := 0
			for i+k < len(a) && j+k < len(b) && a[i+k] == b[j+k] {
				k++
			}
			if k > best {
				best = k
			}
		}
	}
	return best
}

// replaceIdent replaces whole-identifier occurrences of from (not selector fields) in a Go expression text.
func replaceIdent(src, from, to string) string {
	var b strings.Builder
	isId := func(c byte) bool {
		return c == '_' || c >= '0' && c <= '9' || c >= 'a' && c <= 'z' || c >= 'A' && c <= 'Z'
	}
	i := 0
	for i < len(src) {
		c := src[i]
		if c == '"' || c == '`' || c == '\'' {
			// skip literals
			j := i + 1
			for j < len(src) && src[j] != c {
				if src[j] == '\\' && c != '`' {
					j++
				}
				j++
			}
			if j < len(src) {
				j++
			}
			b.WriteString(src[i:j])
			i = j
			continue
		}
		if isId(c) && !(c >= '0' && c <= '9') {
			j := i
			for j < len(src) && isId(src[j]) {
				j++
			}
			word := src[i:j]
			prevDot := false
			for k := i - 1; k >= 0; k-- {
				if src[k] == ' ' {
					continue
				}
				prevDot = src[k] == '.'
				break
			}
			if word == from && !prevDot {
				b.WriteString(to)
			} else {
				b.WriteString(word)
			}
			i = j
			continue
		}
		b.WriteByte(c)
		i++
	}
	return b.String()
}

func (fv *FuncVerifier) clausePos(cl *Clause) token.Pos {
	return fv.fn.Decl.Body.Lbrace + 1
}

func (fv *FuncVerifier) entryFor(st *State) *State { return fv.entry }

// ghostTypesFor lists the ghost names available to clauses of fi at function level.
func ghostTypesFor(fi *FuncInfo, lit *ast.FuncLit, info *types.Info) map[string]types.Type {
	gt := map[string]types.Type{}
	var res *types.Tuple
	if lit != nil {
		if t, ok := info.Types[lit]; ok {
			if s, ok := t.Type.Underlying().(*types.Signature); ok {
				res = s.Results()
			}
		}
	} else if fi.Obj != nil {
		res = fi.Obj.Type().(*types.Signature).Results()
	}
	if res != nil {
		if res.Len() == 1 {
			gt["result"] = res.At(0).Type()
		}
		for i := 0; i < res.Len(); i++ {
			gt[fmt.Sprintf("result%d", i)] = res.At(i).Type()
		}
	}
	return gt
}

// evalClause evaluates a clause of the function under verification in state st.
func (fv *FuncVerifier) evalClause(st *State, cl *Clause, pos token.Pos, names map[string]Term, entry *State) Term {
	gt := map[string]types.Type{}
	for k, v := range fv.ghostTypes {
		gt[k] = v
	}
	for n, t := range fv.loopGhostTypes {
		if _, ok := gt[n]; !ok {
			gt[n] = t
		}
	}
	cc := checkClause(fv.prog, fv.fn, cl, pos, gt)
	if cc.err != nil {
		fv.bindErrors = append(fv.bindErrors, fmt.Sprintf("%s (%s): %v", cl.Pos, cl.Kind, cc.err))
		return fv.fresh("badclause", SBool)
	}
	env := &Env{info: cc.info, spec: true, old: fv.entry, entry: entry, binds: map[types.Object]Term{}}
	// parameters refer to their entry values (maps: current value)
	if cl.Kind == "ensures" || cl.Kind == "yields" || cl.Kind == "yields2" || cl.Kind == "panics" {
		for o, v := range fv.entryParams {
			if _, isMap := o.Type().Underlying().(*types.Map); isMap {
				continue
			}
			env.binds[o] = v
		}
	}
	env.oldB = fv.entryParams
	env.gparams = cc.params
	for n, o := range cc.params {
		if t, ok := names[n]; ok {
			env.binds[o] = t
		} else if t, ok := st.ghost[n]; ok {
			env.binds[o] = t
		}
	}
	for n, t := range st.ghost {
		if o, ok := cc.params[n]; ok {
			if _, set := env.binds[o]; !set {
				env.binds[o] = t
			}
		}
	}
	return fv.eval(st, env, cc.expr)
}

// evalClauseFor evaluates a clause of callee fi at a call site.
func (fv *FuncVerifier) evalClauseFor(fi *FuncInfo, st *State, cl *Clause, binds map[types.Object]Term, names map[string]Term, pre *State, preBinds map[types.Object]Term) Term {
	pos := fi.Decl.Body.Lbrace + 1
	desugarNoWitness = true
	cc := checkClause(fv.prog, fi, cl, pos, ghostTypesFor(fi, nil, fi.Pkg.TypesInfo))
	desugarNoWitness = false
	if cc.err != nil {
		fv.bindErrors = append(fv.bindErrors, fmt.Sprintf("%s (%s of callee %s): %v", cl.Pos, cl.Kind, fi.Key, cc.err))
		return fv.fresh("badclause", SBool)
	}
	env := &Env{info: cc.info, spec: true, old: pre, binds: map[types.Object]Term{}, oldB: preBinds}
	for k, v := range binds {
		env.binds[k] = v
	}
	for n, o := range cc.params {
		if t, ok := names[n]; ok {
			env.binds[o] = t
		}
	}
	return fv.eval(st, env, cc.expr)
}

// ---- spec functions ----

type specDef struct {
	recursive  bool
	inProgress bool
	name       string
	heapKeys   []string
	heapSort   map[string]Sort
	res        Sort
	ok         bool
	err        string
}

var specDefs = map[*types.Func]*specDef{}

// specApp translates a call of an executable spec function into an application of its SMT definition.
func (fv *FuncVerifier) specApp(st *State, env *Env, call *ast.CallExpr, fn *types.Func) Term {
	sd := fv.specDefine(fn)
	sig := fn.Type().(*types.Signature)
	if !sd.ok {
		fv.bindErrors = append(fv.bindErrors, fmt.Sprintf("spec function %s: %s", fn.Name(), sd.err))
		return fv.fresh("badspec", fv.sortOf(sig.Results().At(0).Type()))
	}
	args := fv.evalArgs(st, env, call, sig)
	args = fv.packVariadic(call, sig, args)
	for i := range args {
		if i < sig.Params().Len() {
			args[i] = fv.coerce(args[i], fv.sortOf(sig.Params().At(i).Type()))
		}
	}
	for _, k := range sd.heapKeys {
		args = append(args, fv.heapGet(st, k, sd.heapSort[k]))
	}
	if sd.inProgress {
		args = append([]Term{{S: "$FUEL", Sort: "Fuel"}}, args...)
	} else if sd.recursive {
		args = append([]Term{{S: "(FS (FS FZ))", Sort: "Fuel"}}, args...)
	}
	return App(sd.res, sd.name, args...)
}

func (fv *FuncVerifier) specDefine(fn *types.Func) *specDef {
	if sd, ok := specDefs[fn]; ok {
		return sd
	}
	fi := fv.prog.ByObj[fn]
	sig := fn.Type().(*types.Signature)
	sd := &specDef{name: "sp_" + sanitize(relPkg(fn.Pkg().Path())) + "_" + fn.Name(), heapSort: map[string]Sort{}}
	specDefs[fn] = sd
	if fi == nil || sig.Results().Len() != 1 {
		sd.err = "not found or not single-result"
		return sd
	}
	sd.res = fv.sortOf(sig.Results().At(0).Type())
	// an uninterpreted spec function: body is `panic("uninterpreted")`
	if isUninterpretedSpec(fi.Decl) {
		var ps []Sort
		for i := 0; i < sig.Params().Len(); i++ {
			ps = append(ps, fv.sortOf(sig.Params().At(i).Type()))
		}
		fv.w.UFun(sd.name, ps, sd.res, "")
		sd.ok = true
		return sd
	}
	// iterate to a fixpoint of heap dependencies (self recursion passes its own heap params through)
	sd.ok = true
	sd.inProgress = true
	defer func() { sd.inProgress = false }()
	var body Term
	var params []string
	for iter := 0; iter < 4; iter++ {
		sub := &FuncVerifier{w: fv.w, prog: fv.prog, fn: fi, info: fi.Pkg.TypesInfo, consts: map[string]Sort{}, loops: map[ast.Stmt]int{}, lits: map[*ast.FuncLit]int{},
			dropped: map[string]bool{}, externUsed: fv.externUsed, calleesUsed: map[string]bool{}, closureLits: map[*types.Var]*ast.FuncLit{}, specMode: true, specResSort: sd.res}
		st := &State{vars: map[types.Object]Term{}, heap: map[string]Term{}, ghost: map[string]Term{}, hmark: map[string]int{}, heapParams: map[string]Sort{}}
		params = nil
		for _, f := range fi.Decl.Type.Params.List {
			for _, n := range f.Names {
				o := fi.Pkg.TypesInfo.Defs[n]
				s := fv.sortOf(o.Type())
				pn := "p$" + sanitize(n.Name)
				st.vars[o] = Term{pn, s}
				params = append(params, fmt.Sprintf("(%s %s)", pn, s))
			}
		}
		env := &Env{info: fi.Pkg.TypesInfo, spec: true}
		t, err := sub.pureBody(st, env, fi.Decl.Body.List)
		if err != "" {
			sd.ok = false
			sd.err = err
			return sd
		}
		if len(sub.bindErrors) > 0 {
			sd.ok = false
			sd.err = strings.Join(sub.bindErrors, "; ")
			return sd
		}
		body = fv.coerce(t, sd.res)
		var keys []string
		for k := range st.heapParams {
			keys = append(keys, k)
		}
		sort.Strings(keys)
		changed := len(keys) != len(sd.heapKeys)
		sd.heapKeys = keys
		for k, s := range st.heapParams {
			sd.heapSort[k] = s
		}
		for n, s := range sub.consts {
			// fresh constants inside a spec body are not allowed (would be unsound as parameters)
			_ = s
			if !strings.HasPrefix(n, "H_") {
				sd.ok = false
				sd.err = "spec function body uses an unsupported construct (" + n + "): " + strings.Join(sub.notes, "; ")
				return sd
			}
		}
		if !changed {
			break
		}
	}
	for _, k := range sd.heapKeys {
		params = append(params, fmt.Sprintf("(h$%s %s)", sanitize(k), sd.heapSort[k]))
	}
	recursive := false
	smtTokens(body.S, func(tok string) {
		if tok == sd.name {
			recursive = true
		}
	})
	if !recursive {
		text := fmt.Sprintf("(define-fun %s (%s) %s\n  %s)\n", sd.name, strings.Join(params, " "), sd.res, body.S)
		fv.w.AddDef("spec:"+sd.name, []string{sd.name}, text)
		return sd
	}
	// recursive spec function: uninterpreted function with a fuel argument (Dafny-style): an application with fuel
	// (FS f) unfolds once into applications with fuel f; fuel never changes the value (synonym axiom).
	sd.recursive = true
	var sorts, names []string
	for _, p := range params {
		p = strings.TrimSuffix(strings.TrimPrefix(p, "("), ")")
		i := strings.Index(p, " ")
		names = append(names, p[:i])
		sorts = append(sorts, p[i+1:])
	}
	app := func(fuel string) string {
		return "(" + sd.name + " " + fuel + " " + strings.Join(names, " ") + ")"
	}
	if len(names) == 0 {
		app = func(fuel string) string { return "(" + sd.name + " " + fuel + ")" }
	}
	binders := "(fu$ Fuel)"
	for i := range names {
		binders += fmt.Sprintf(" (%s %s)", names[i], sorts[i])
	}
	bodyText := strings.ReplaceAll(body.S, "$FUEL", "fu$")
	text := fmt.Sprintf("(declare-fun %s (Fuel %s) %s)\n(assert (forall (%s) (! (= %s %s) :pattern (%s))))\n(assert (forall (%s) (! (= %s\n  %s) :pattern (%s))))\n",
		sd.name, strings.Join(sorts, " "), sd.res,
		binders, app("(FS fu$)"), app("fu$"), app("(FS fu$)"),
		binders, app("(FS fu$)"), bodyText, app("(FS fu$)"))
	fv.w.AddDef("spec:"+sd.name, []string{sd.name}, text)
	return sd
}

func isUninterpretedSpec(d *ast.FuncDecl) bool {
	if len(d.Body.List) != 1 {
		return false
	}
	es, ok := d.Body.List[0].(*ast.ExprStmt)
	if !ok {
		return false
	}
	call, ok := es.X.(*ast.CallExpr)
	if !ok {
		return false
	}
	id, ok := call.Fun.(*ast.Ident)
	if !ok || id.Name != "panic" || len(call.Args) != 1 {
		return false
	}
	bl, ok := call.Args[0].(*ast.BasicLit)
	return ok && strings.Contains(bl.Value, "uninterpreted")
}

// pureBody turns a side-effect-free statement list (if/switch/return/:=) into one term.
func (fv *FuncVerifier) pureBody(st *State, env *Env, stmts []ast.Stmt) (Term, string) {
	if len(stmts) == 0 {
		return Term{}, "spec function path without return"
	}
	s := stmts[0]
	rest := stmts[1:]
	switch x := s.(type) {
	case *ast.ReturnStmt:
		if len(x.Results) != 1 {
			return Term{}, "spec function must return exactly one value"
		}
		return fv.coerce(fv.eval(st, env, x.Results[0]), fv.specResSort), ""
	case *ast.AssignStmt:
		if x.Tok == token.DEFINE || x.Tok == token.ASSIGN {
			fv.execAssign(st, env, x)
			return fv.pureBody(st, env, rest)
		}
	case *ast.DeclStmt:
		fv.execStmt(st, env, x)
		return fv.pureBody(st, env, rest)
	case *ast.IfStmt:
		if x.Init != nil {
			fv.execStmt(st, env, x.Init)
		}
		c := fv.eval(st, env, x.Cond)
		thenSt := st.cloneShared()
		a, err := fv.pureBody(thenSt, env, append(append([]ast.Stmt(nil), x.Body.List...), rest...))
		if err != "" {
			return Term{}, err
		}
		var elseStmts []ast.Stmt
		if x.Else != nil {
			switch e := x.Else.(type) {
			case *ast.BlockStmt:
				elseStmts = append(elseStmts, e.List...)
			default:
				elseStmts = append(elseStmts, e)
			}
		}
		elseSt := st.cloneShared()
		b, err := fv.pureBody(elseSt, env, append(elseStmts, rest...))
		if err != "" {
			return Term{}, err
		}
		return Ite(c, a, fv.coerce(b, a.Sort)), ""
	case *ast.SwitchStmt:
		if x.Init != nil {
			fv.execStmt(st, env, x.Init)
		}
		var tag Term
		if x.Tag != nil {
			tag = fv.eval(st, env, x.Tag)
		}
		type arm struct {
			cond Term
			body []ast.Stmt
		}
		var arms []arm
		var deflt []ast.Stmt
		hasDefault := false
		for _, c := range x.Body.List {
			cc := c.(*ast.CaseClause)
			if cc.List == nil {
				deflt = cc.Body
				hasDefault = true
				continue
			}
			var conds []Term
			for _, e := range cc.List {
				v := fv.eval(st, env, e)
				if x.Tag != nil {
					if fv.w.IsSeq(tag.Sort) {
						conds = append(conds, fv.w.SeqEq(tag, v))
					} else {
						conds = append(conds, App(SBool, "=", tag, fv.coerce(v, tag.Sort)))
					}
				} else {
					conds = append(conds, v)
				}
			}
			arms = append(arms, arm{Or(conds...), cc.Body})
		}
		_ = hasDefault
		out, err := fv.pureBody(st.cloneShared(), env, append(append([]ast.Stmt(nil), deflt...), rest...))
		if err != "" {
			return Term{}, err
		}
		for i := len(arms) - 1; i >= 0; i-- {
			a, err := fv.pureBody(st.cloneShared(), env, append(append([]ast.Stmt(nil), arms[i].body...), rest...))
			if err != "" {
				return Term{}, err
			}
			out = Ite(arms[i].cond, a, fv.coerce(out, a.Sort))
		}
		return out, ""
	case *ast.BlockStmt:
		return fv.pureBody(st, env, append(append([]ast.Stmt(nil), x.List...), rest...))
	}
	return Term{}, fmt.Sprintf("spec function: unsupported statement %T at %s", s, fv.pos(s.Pos()))
}

// cloneShared clones a state but keeps sharing the heapParams registry (spec-function translation).
func (s *State) cloneShared() *State {
	n := s.Clone()
	n.heapParams = s.heapParams
	return n
}

// ---- function-level driver ----

type FuncResult struct {
	Fn           *FuncInfo
	Obls         []*Obligation
	Notes        []string
	Dropped      []string
	Externs      []string
	Callees      []string
	BindErrors   []string
	GlobalWrites []string
	Abstracted   bool
}

func numberLoopsAndLits(fd *ast.FuncDecl) (map[ast.Stmt]int, map[*ast.FuncLit]int) {
	loops := map[ast.Stmt]int{}
	lits := map[*ast.FuncLit]int{}
	nl, nf := 0, 0
	ast.Inspect(fd.Body, func(n ast.Node) bool {
		switch x := n.(type) {
		case *ast.ForStmt:
			nl++
			loops[x] = nl
		case *ast.RangeStmt:
			nl++
			loops[x] = nl
		case *ast.FuncLit:
			nf++
			lits[x] = nf
		}
		return true
	})
	return loops, lits
}

// renumberThroughHelpers: loop ordinals follow the order in which loops are ENCOUNTERED when the function is read in
// source order descending into the small uncontracted same-package helpers it calls (the ones executed inline). A loop
// that was moved into an extracted helper keeps the ordinal - and with it the invariants - it had while it was
// written in place. Without such helpers this is exactly the source-order numbering.
func (fv *FuncVerifier) renumberThroughHelpers() {
	fi := fv.fn
	if fi == nil || fi.Decl == nil || fi.Decl.Body == nil || fi.Pkg == nil {
		return
	}
	loops := map[ast.Stmt]int{}
	n := 0
	// On the delivered tree this function had no loop inside an inlined helper, and it still has as many loops of
	// its own as then: loops that now appear inside (new) helpers are NEW loops and are numbered after the
	// function's own ones, whose ordinals - and clauses - stay as they are. (Otherwise: encounter order, so that a
	// loop MOVED into a helper keeps its ordinal.)
	if bl, ok := baselineLoops[fi.Key]; ok && bl[0] == bl[1] && len(fv.loops) == bl[0] {
		for k, v := range fv.loops {
			loops[k] = v
		}
		n = len(fv.loops)
	}
	visiting := map[*FuncInfo]bool{fi: true}
	var walk func(body *ast.BlockStmt, info *types.Info, depth int)
	walk = func(body *ast.BlockStmt, info *types.Info, depth int) {
		ast.Inspect(body, func(x ast.Node) bool {
			switch y := x.(type) {
			case *ast.ForStmt:
				if _, done := loops[y]; !done {
					n++
					loops[y] = n
				}
			case *ast.RangeStmt:
				if _, done := loops[y]; !done {
					n++
					loops[y] = n
				}
			case *ast.CallExpr:
				if depth >= 3 {
					return true
				}
				if fn, ok := typeutil.Callee(info, y).(*types.Func); ok {
					if h, ok := fv.prog.ByObj[fn.Origin()]; ok && h.Contr == nil && h.Pkg == fi.Pkg && !visiting[h] && fv.inlinable(h) {
						// arguments first (source order), then the helper's body
						for _, a := range y.Args {
							ast.Inspect(a, func(ast.Node) bool { return true })
						}
						visiting[h] = true
						walk(h.Decl.Body, h.Pkg.TypesInfo, depth+1)
						delete(visiting, h)
					}
				}
			}
			return true
		})
	}
	walk(fi.Decl.Body, fi.Pkg.TypesInfo, 0)
	same := len(loops) == len(fv.loops)
	for k, v := range fv.loops {
		if loops[k] != v {
			same = false
		}
	}
	if !same {
		fv.loops = loops
	}
}

// VerifyFunc generates all obligations of fi (the function itself and every contracted literal inside it).
func VerifyFunc(w *World, prog *Program, fi *FuncInfo) *FuncResult {
	fv := &FuncVerifier{w: w, prog: prog, fn: fi, info: fi.Pkg.TypesInfo, consts: map[string]Sort{},
		dropped: map[string]bool{}, externUsed: map[string]bool{}, calleesUsed: map[string]bool{}, closureLits: map[*types.Var]*ast.FuncLit{},
		loopGhostTypes: map[string]types.Type{}}
	fv.loops, fv.lits = numberLoopsAndLits(fi.Decl)
	fv.renumberThroughHelpers()
	fv.prepareLoopGhostTypes()
	// local variables bound to function literals (x := func..., var x func...; x = func...)
	ast.Inspect(fi.Decl.Body, func(n ast.Node) bool {
		if as, ok := n.(*ast.AssignStmt); ok {
			for i, l := range as.Lhs {
				if i < len(as.Rhs) {
					if lit, ok := ast.Unparen(as.Rhs[i]).(*ast.FuncLit); ok {
						if id, ok := l.(*ast.Ident); ok {
							if v, ok := fv.info.ObjectOf(id).(*types.Var); ok {
								fv.closureLits[v] = lit
							}
						}
					}
				}
			}
		}
		return true
	})
	res := &FuncResult{Fn: fi}
	func() {
		defer func() {
			if r := recover(); r != nil {
				fv.bindErrors = append(fv.bindErrors, fmt.Sprintf("internal error while translating %s: %v", fi.Key, r))
				if debugPanics {
					panic(r)
				}
			}
		}()
		if fi.Contr != nil && fi.Contr.Has("trusted", 0) {
			fv.note("trusted: body of %s not verified", fi.Key)
			fv.scanTrustedFrame()
		} else {
			fv.verifyUnit(nil)
		}
		// contracted literals
		type litOrd struct {
			lit *ast.FuncLit
			ord int
		}
		var ls []litOrd
		for l, o := range fv.lits {
			ls = append(ls, litOrd{l, o})
		}
		sort.Slice(ls, func(i, j int) bool { return ls[i].ord < ls[j].ord })
		// literals a function with a `preserves` frame RETURNS (iterators run later, by the caller): the caller assumes
		// that running them respects the same frame, so the frame is proved on each such literal as a unit too
		returned := map[*ast.FuncLit]bool{}
		if fi.Contr != nil && !fi.Contr.Has("trusted", 0) {
			if pfx, _ := preservesOf(fi.Contr); pfx != "" {
				ast.Inspect(fi.Decl.Body, func(n ast.Node) bool {
					if r, ok := n.(*ast.ReturnStmt); ok {
						for _, e := range r.Results {
							if l, ok := ast.Unparen(e).(*ast.FuncLit); ok {
								returned[l] = true
							}
						}
					}
					return true
				})
			}
		}
		// `lit k framed`: the function's frame (pure / assigns / preserves) is claimed for this literal as well
		if fi.Contr != nil {
			for _, l := range ls {
				if fi.Contr.Has("framed", l.ord) {
					returned[l.lit] = true
				}
			}
		}
		fv.framedLits = returned
		for _, l := range ls {
			if fi.Contr != nil && (fi.Contr.Has("ensures", l.ord) || fi.Contr.Has("invariant", l.ord) || fi.Contr.Has("yields", l.ord) || fi.Contr.Has("yields2", l.ord) || fi.Contr.Has("nopanic", l.ord) || fi.Contr.Has("panics", l.ord) || fi.Contr.Has("noglobals", l.ord) || fi.Contr.Has("noglobalstate", l.ord)) {
				fv.verifyUnit(l.lit)
			} else if returned[l.lit] && len(l.lit.Body.List) > 0 {
				// frame only: the other obligations of an uncontracted literal are not claims of this contract
				n0 := len(fv.obls)
				nb := len(fv.bindErrors)
				fv.verifyUnit(l.lit)
				kept := fv.obls[:n0]
				for _, o := range fv.obls[n0:] {
					if o.Class == "R" {
						kept = append(kept, o)
					}
				}
				fv.obls = kept
				fv.bindErrors = fv.bindErrors[:nb]
			}
		}
	}()
	fv.nameObligations()
	res.Obls = fv.obls
	res.Notes = fv.notes
	for d := range fv.dropped {
		res.Dropped = append(res.Dropped, d)
	}
	sort.Strings(res.Dropped)
	for d := range fv.externUsed {
		res.Externs = append(res.Externs, d)
	}
	sort.Strings(res.Externs)
	for d := range fv.calleesUsed {
		res.Callees = append(res.Callees, d)
	}
	sort.Strings(res.Callees)
	seenErr := map[string]bool{}
	for _, e := range fv.bindErrors {
		if !seenErr[e] {
			seenErr[e] = true
			res.BindErrors = append(res.BindErrors, e)
		}
	}
	res.GlobalWrites = fv.globalWrites
	for _, n := range fv.notes {
		if strings.HasPrefix(n, "abstracted") {
			res.Abstracted = true
		}
	}
	return res
}

var debugPanics = false

func (fv *FuncVerifier) litTag() string {
	if fv.curLit > 0 {
		return fmt.Sprintf("lit%d:", fv.curLit)
	}
	return ""
}

// assignedOnce: the local variable v is assigned exactly once in the function under verification (its defining
// assignment) and its address is never taken.
func (fv *FuncVerifier) assignedOnce(v *types.Var) bool {
	n := 0
	ok := true
	ast.Inspect(fv.fn.Decl, func(nd ast.Node) bool {
		switch x := nd.(type) {
		case *ast.AssignStmt:
			for _, l := range x.Lhs {
				if id, isId := ast.Unparen(l).(*ast.Ident); isId && fv.info.ObjectOf(id) == v {
					n++
				}
			}
		case *ast.ValueSpec:
			for i, nm := range x.Names {
				if fv.info.Defs[nm] == v && i < len(x.Values) {
					n++
				}
			}
		case *ast.UnaryExpr:
			if id, isId := ast.Unparen(x.X).(*ast.Ident); isId && x.Op == token.AND && fv.info.ObjectOf(id) == v {
				ok = false
			}
		case *ast.IncDecStmt:
			if id, isId := ast.Unparen(x.X).(*ast.Ident); isId && fv.info.ObjectOf(id) == v {
				ok = false
			}
		}
		return true
	})
	return ok && n == 1
}

// canonicalIndexLoop recognises `for i := 0; i < len(S); i++ { ... }` (S an identifier or a selector path) and
// returns the index variable and S. Such a loop is the same iteration as `for i := range S` when the body neither
// assigns i nor changes S (checked by the caller against the loop's write set).
func canonicalIndexLoop(info *types.Info, f *ast.ForStmt) (types.Object, ast.Expr) {
	as, ok := f.Init.(*ast.AssignStmt)
	if !ok || as.Tok != token.DEFINE || len(as.Lhs) != 1 || len(as.Rhs) != 1 {
		return nil, nil
	}
	id, ok := as.Lhs[0].(*ast.Ident)
	if !ok {
		return nil, nil
	}
	if lit, ok := as.Rhs[0].(*ast.BasicLit); !ok || lit.Value != "0" {
		return nil, nil
	}
	iobj := info.Defs[id]
	inc, ok := f.Post.(*ast.IncDecStmt)
	if !ok || inc.Tok != token.INC {
		return nil, nil
	}
	if pid, ok := inc.X.(*ast.Ident); !ok || info.ObjectOf(pid) != iobj {
		return nil, nil
	}
	cond, ok := f.Cond.(*ast.BinaryExpr)
	if !ok || cond.Op != token.LSS {
		return nil, nil
	}
	if cid, ok := cond.X.(*ast.Ident); !ok || info.ObjectOf(cid) != iobj {
		return nil, nil
	}
	call, ok := cond.Y.(*ast.CallExpr)
	if !ok || len(call.Args) != 1 {
		return nil, nil
	}
	if fn, ok := call.Fun.(*ast.Ident); !ok || fn.Name != "len" {
		return nil, nil
	}
	switch sx := ast.Unparen(call.Args[0]).(type) {
	case *ast.Ident:
		return iobj, sx
	case *ast.SelectorExpr:
		return iobj, sx
	}
	return nil, nil
}

func (fv *FuncVerifier) prepareLoopGhostTypes() {
	info := fv.info
	for s, ord := range fv.loops {
		fv.loopGhostTypes[fmt.Sprintf("done%d", ord)] = types.Typ[types.Bool]
		fv.loopGhostTypes[fmt.Sprintf("it%d", ord)] = types.Typ[types.Int]
		fv.loopGhostTypes[fmt.Sprintf("off%d", ord)] = types.Typ[types.Int]
		if f, ok := s.(*ast.ForStmt); ok {
			// canonical index loop `for i := 0; i < len(S); i++`: the same ghosts as `for i := range S`
			if _, sx := canonicalIndexLoop(info, f); sx != nil {
				if xt := info.TypeOf(sx); xt != nil {
					switch u := xt.Underlying().(type) {
					case *types.Slice:
						fv.loopGhostTypes[fmt.Sprintf("xs%d", ord)] = xt
					case *types.Array:
						fv.loopGhostTypes[fmt.Sprintf("xs%d", ord)] = types.NewSlice(u.Elem())
					}
				}
			}
		}
		if r, ok := s.(*ast.RangeStmt); ok {
			xt := info.TypeOf(r.X)
			if xt == nil {
				continue
			}
			switch u := xt.Underlying().(type) {
			case *types.Slice:
				fv.loopGhostTypes[fmt.Sprintf("xs%d", ord)] = xt
			case *types.Array:
				fv.loopGhostTypes[fmt.Sprintf("xs%d", ord)] = types.NewSlice(u.Elem())
			case *types.Map:
				fv.loopGhostTypes[fmt.Sprintf("ks%d", ord)] = types.NewSlice(u.Key())
			case *types.Signature:
				if u.Params().Len() == 1 {
					if ys, ok := u.Params().At(0).Type().Underlying().(*types.Signature); ok {
						if ys.Params().Len() >= 1 {
							fv.loopGhostTypes[fmt.Sprintf("ys%d", ord)] = types.NewSlice(ys.Params().At(0).Type())
						}
						if ys.Params().Len() >= 2 {
							fv.loopGhostTypes[fmt.Sprintf("ys%db", ord)] = types.NewSlice(ys.Params().At(1).Type())
						}
					}
				}
			}
		}
	}
}

// scanTrustedFrame: a `trusted` function with a `preserves` frame is not verified - its frame is a listed assumption. What
// CAN be done mechanically is a scan of its body (function literals included) for the statements that would plainly
// break the assumed frame: a mutating method of a sync.Map when the frame names `$syncmap:`, and an assignment to a
// field (or to an element of a field) of a struct type of /repo whose key falls under a preserved prefix. The result is
// one obligation `R.frame-scan` (decided by the analysis, no solver; NOT a proof of the frame: calls are not followed).
func (fv *FuncVerifier) scanTrustedFrame() {
	fi := fv.fn
	pfx, exc := preservesOf(fi.Contr)
	if pfx == "" || fi.Decl == nil || fi.Decl.Body == nil {
		return
	}
	info := fi.Pkg.TypesInfo
	keep := havocEvent{prefix: pfx, except: exc}
	var bad []string
	fieldKeyOf := func(e ast.Expr) string {
		for {
			switch x := ast.Unparen(e).(type) {
			case *ast.IndexExpr:
				e = x.X
				continue
			case *ast.StarExpr:
				e = x.X
				continue
			case *ast.SelectorExpr:
				if sel, ok := info.Selections[x]; ok && sel.Kind() == types.FieldVal {
					return fieldKey(sel.Recv(), x.Sel.Name)
				}
			}
			return ""
		}
	}
	ast.Inspect(fi.Decl.Body, func(n ast.Node) bool {
		switch x := n.(type) {
		case *ast.AssignStmt:
			for _, l := range x.Lhs {
				if k := fieldKeyOf(l); k != "" && strings.HasPrefix(k, "pkg/") && keep.preserves(k) {
					bad = append(bad, "stores to "+k+" at "+fv.pos(l.Pos()))
				}
			}
		case *ast.IncDecStmt:
			if k := fieldKeyOf(x.X); k != "" && strings.HasPrefix(k, "pkg/") && keep.preserves(k) {
				bad = append(bad, "stores to "+k+" at "+fv.pos(x.Pos()))
			}
		case *ast.CallExpr:
			if fn, ok := calleeOf(info, x).(*types.Func); ok && strings.Contains(pfx, "$syncmap:") {
				switch fn.FullName() {
				case "(*sync.Map).Store", "(*sync.Map).LoadOrStore", "(*sync.Map).Swap", "(*sync.Map).CompareAndSwap", "(*sync.Map).Delete", "(*sync.Map).LoadAndDelete", "(*sync.Map).CompareAndDelete", "(*sync.Map).Clear":
					bad = append(bad, "calls "+fn.FullName()+" at "+fv.pos(x.Pos()))
				}
			}
		}
		return true
	})
	status, desc := "unsat", "scan of the trusted body: no assignment to a field under the assumed `preserves` frame and no mutating sync.Map call (mechanical scan, calls not followed - the frame itself stays an assumption)"
	if len(bad) > 0 {
		sort.Strings(bad)
		status, desc = "failed", "the trusted body plainly breaks its assumed frame: "+strings.Join(bad, "; ")
	}
	pos := fi.Decl.Body.Lbrace
	fv.obls = append(fv.obls, &Obligation{Func: fi.Key, Class: "R", Kind: "frame-scan", Site: pos, Pos: fv.pos(pos), Goal: True,
		Desc: desc, consts: fv.consts, Name: fi.Key + "#R.frame-scan[trusted]", Status: status, Solver: "govc-analysis"})
}

// verifyUnit verifies the function body (lit == nil) or one contracted function literal.
func (fv *FuncVerifier) verifyUnit(lit *ast.FuncLit) {
	fi := fv.fn
	info := fv.info
	st := &State{vars: map[types.Object]Term{}, heap: map[string]Term{}, ghost: map[string]Term{}, hmark: map[string]int{}}
	fv.curLit = 0
	fv.yieldVar = nil
	fv.globalWrites = nil
	fv.orderLeaks = nil
	fv.mapRangeDepth = 0
	fv.globalReads = map[string]bool{}
	fv.nondet = nil
	var ftype *ast.FuncType
	var body *ast.BlockStmt
	var sig *types.Signature
	if lit == nil {
		ftype, body = fi.Decl.Type, fi.Decl.Body
		if fi.Obj != nil {
			sig = fi.Obj.Type().(*types.Signature)
		} else {
			sig = types.NewSignatureType(nil, nil, nil, nil, nil, false)
		}
	} else {
		fv.curLit = fv.lits[lit]
		ftype, body = lit.Type, lit.Body
		sig = fv.sigOfLit(&Closure{Lit: lit, Info: info})
	}
	fv.ghostTypes = ghostTypesFor(fi, lit, info)
	fv.ghostTypes["fnres"] = types.Typ[types.Bool]
	fv.entryParams = map[types.Object]Term{}
	declare := func(fl *ast.FieldList) {
		if fl == nil {
			return
		}
		for _, f := range fl.List {
			for _, n := range f.Names {
				o := info.Defs[n]
				if o == nil || n.Name == "_" {
					continue
				}
				v := fv.fresh(n.Name, fv.sortOf(o.Type()))
				st.vars[o] = v
				st.Assume(fv.typeInv(v, o.Type()))
				st.Assume(fv.seqElemInv(v, o.Type()))
				if v.Sort == SRef {
					al := fv.heapGet(st, "$ghost:alloc", "(Array Ref Bool)")
					st.Assume(Or(App(SBool, "=", v, Null), App(SBool, "select", al, v)))
				}
				if v.Sort == fv.w.SeqSort(SRef) {
					// elements of a slice of references are nil or allocated
					al := fv.heapGet(st, "$ghost:alloc", "(Array Ref Bool)")
					st.Assume(T(SBool, "(forall ((i$ Int)) (! (=> (and (<= 0 i$) (< i$ (len_Ref %[1]s))) (or (= (at_Ref %[1]s i$) null) (select %[2]s (at_Ref %[1]s i$)))) :pattern ((at_Ref %[1]s i$))))", v.S, al.S))
				}
				fv.entryParams[o] = v
			}
		}
	}
	if lit != nil {
		// captured variables of the enclosing function: arbitrary values (params of the function keep entry semantics)
		declare(fi.Decl.Recv)
		declare(fi.Decl.Type.Params)
		// captured LOCALS of the enclosing function get their (arbitrary) entry value now, so that old(x) in the
		// literal's clauses and x in its body denote the same value until the literal assigns x
		seenCap := map[types.Object]bool{}
		var capture func(n ast.Node) bool
		capture = func(n ast.Node) bool {
			id, ok := n.(*ast.Ident)
			if !ok {
				return true
			}
			v, ok := info.Uses[id].(*types.Var)
			if !ok || v.IsField() || seenCap[v] || v.Pkg() == nil || v.Parent() == v.Pkg().Scope() {
				return true
			}
			if v.Pos() >= lit.Pos() && v.Pos() < lit.End() {
				return true // declared inside the literal
			}
			if v.Pos() < fi.Decl.Pos() || v.Pos() >= fi.Decl.End() {
				return true
			}
			if _, isParam := st.vars[v]; isParam {
				return true
			}
			if _, isSig := v.Type().Underlying().(*types.Signature); isSig {
				// a function-typed local that is bound ONCE, to a literal (`helper := func...`), denotes that literal
				// inside this unit too: calls of it execute the literal's body (its own captured variables are
				// captured here as well); any other function-typed local stays an unknown function value
				if l2 := fv.closureLits[v]; l2 != nil && l2 != lit && fv.assignedOnce(v) && (fv.modularLits == nil || fv.modularLits[v] == nil) {
					seenCap[v] = true
					t := fv.fresh("closure", SRef)
					if st.clos == nil {
						st.clos = map[string]*Closure{}
					}
					st.clos[t.S] = &Closure{Lit: l2, Info: info}
					st.Assume(Not(App(SBool, "=", t, Null)))
					st.vars[v] = t
					ast.Inspect(l2.Body, capture)
				}
				return true
			}
			seenCap[v] = true
			nv := fv.fresh(v.Name(), fv.sortOf(v.Type()))
			st.vars[v] = nv
			st.Assume(fv.typeInv(nv, v.Type()))
			return true
		}
		ast.Inspect(lit.Body, capture)
	} else {
		declare(fi.Decl.Recv)
	}
	declare(ftype.Params)
	// receiver of a method is never nil when fields are accessed? not assumed: nil receivers are legal.
	var resVars []*types.Var
	if ftype.Results != nil {
		for _, f := range ftype.Results.List {
			for _, n := range f.Names {
				if o, ok := info.Defs[n].(*types.Var); ok {
					st.vars[o] = fv.zero(fv.sortOf(o.Type()))
					resVars = append(resVars, o)
				}
			}
		}
	}
	// iterator body: the yield parameter
	if lit != nil && ftype.Params != nil && len(ftype.Params.List) == 1 && len(ftype.Params.List[0].Names) == 1 {
		if o, ok := info.Defs[ftype.Params.List[0].Names[0]].(*types.Var); ok {
			if ys, ok := o.Type().Underlying().(*types.Signature); ok && ys.Results().Len() == 1 && sig.Results().Len() == 0 {
				fv.yieldVar = o
				if ys.Params().Len() >= 1 {
					es := fv.sortOf(ys.Params().At(0).Type())
					st.ghost["out"] = fv.w.SeqEmpty(fv.w.SeqSort(es))
					fv.ghostTypes["out"] = types.NewSlice(ys.Params().At(0).Type())
					if es == fv.w.SeqSort(SInt) {
						st.ghost["outText"] = fv.w.SeqEmpty(es)
						fv.ghostTypes["outText"] = types.Typ[types.String]
					}
				}
				if ys.Params().Len() >= 2 {
					es := fv.sortOf(ys.Params().At(1).Type())
					st.ghost["out2"] = fv.w.SeqEmpty(fv.w.SeqSort(es))
					fv.ghostTypes["out2"] = types.NewSlice(ys.Params().At(1).Type())
				}
				st.ghost["stopped"] = False
				fv.ghostTypes["stopped"] = types.Typ[types.Bool]
			}
		}
	}
	// no loop has run to its normal exit yet (ghosts done<k>, readable in postconditions)
	for ls, ord := range fv.loops {
		if lit != nil && !(ls.Pos() >= lit.Pos() && ls.End() <= lit.End()) {
			// a literal verified as a unit does not know how far the ENCLOSING function's loops have come: unconstrained
			// (a callback invariant may state `done<k>`: established where the walk starts, kept by the literal)
			st.ghost[fmt.Sprintf("done%d", ord)] = fv.fresh(fmt.Sprintf("done%d", ord), SBool)
			continue
		}
		st.ghost[fmt.Sprintf("done%d", ord)] = False
	}
	delete(fv.epochAlloc, st.epoch)
	fv.noteEpochAlloc(st)
	fv.entry = st.Clone()
	pos := body.Lbrace + 1
	// requires
	for _, cl := range fi.Contr.Get("requires", 0, fv.curLit) {
		st.Assume(fv.evalClause(st, cl, pos, nil, nil))
	}
	if lit != nil {
		// a literal sees the enclosing function's parameters: the function's preconditions still describe them
		// (sound when the parameters are not reassigned before the literal runs; noted in evidence)
		for _, cl := range fi.Contr.Get("requires", 0, 0) {
			st.Assume(fv.evalClause(st, cl, fi.Decl.Body.Lbrace+1, nil, nil))
		}
		if len(fi.Contr.Get("requires", 0, 0)) > 0 {
			fv.note("literal %d verified under the enclosing function's preconditions (captured parameters assumed not reassigned)", fv.curLit)
		}
	}
	for _, cl := range fi.Contr.Get("assume", 0, fv.curLit) {
		st.Assume(fv.evalClause(st, cl, pos, nil, nil))
	}
	if lit != nil {
		// `lit k invariant I` (callback invariant): I holds whenever the callback is entered ...
		for _, cl := range fi.Contr.Get("invariant", 0, fv.curLit) {
			st.Assume(fv.evalClause(st, cl, pos, nil, nil))
		}
	}
	// `stable p.f, p.f.g`: these cells are assumed not to be modified by calls with unknown effects
	for _, cl := range fi.Contr.Get("stable", 0, fv.curLit) {
		for _, tgt := range splitTopLevel(cl.Text, ',') {
			parts := strings.Split(strings.TrimSpace(tgt), ".")
			if len(parts) < 2 {
				fv.bindErrors = append(fv.bindErrors, cl.Pos+": stable target must be param.field[.field]")
				continue
			}
			found := false
			for o, v := range fv.entryParams {
				if o.Name() != parts[0] {
					continue
				}
				ref := v
				ct := o.Type()
				for k := 1; k < len(parts); k++ {
					pt, ok := ct.Underlying().(*types.Pointer)
					if !ok {
						break
					}
					stt, ok := pt.Elem().Underlying().(*types.Struct)
					if !ok {
						break
					}
					var fld *types.Var
					for j := 0; j < stt.NumFields(); j++ {
						if stt.Field(j).Name() == parts[k] {
							fld = stt.Field(j)
						}
					}
					if fld == nil {
						break
					}
					key := fieldKey(ct, parts[k])
					val := fv.readField(st, ref, key, fv.sortOf(fld.Type()))
					if k == len(parts)-1 {
						st.stableCells = append(st.stableCells, stableCell{key, ref})
						found = true
					}
					ref = val
					ct = fld.Type()
				}
			}
			if !found {
				fv.bindErrors = append(fv.bindErrors, cl.Pos+": stable target "+tgt+" not understood")
			}
		}
	}
	// vacuity: the preconditions must be satisfiable
	if len(fi.Contr.Get("requires", 0, fv.curLit)) > 0 {
		fv.obls = append(fv.obls, &Obligation{Func: fi.Key, Class: "V", Kind: "requires-sat", Site: pos, Pos: fv.pos(pos),
			Assume: append([]Term(nil), st.pc...), Goal: False, Desc: "preconditions are satisfiable (vacuity guard)", consts: fv.consts, Cover: true,
			Name: fmt.Sprintf("%s#V.requires-sat[lit%d]", fi.Key, fv.curLit)})
	}
	fv.entry.pc = append([]Term(nil), st.pc...)
	env := &Env{info: info}
	outs := fv.execBlock(st, env, body.List)
	nres := sig.Results().Len()
	retIdx := 0
	// exceptional exits: a panic raised by called code unwinds through this function: its pending deferred calls run
	// (LIFO), then the `onpanic` clauses must hold (no result values; old() is the entry state)
	if lit == nil && fi.Contr.Has("onpanic", 0) {
		pexits := fv.panicStates
		fv.panicStates = nil
		for pi, pe := range pexits {
			s2 := pe.st
			for i := len(s2.defers) - 1; i >= 0; i-- {
				fv.evalCall(s2, env, s2.defers[i].call)
			}
			for _, cl := range fi.Contr.Get("onpanic", 0, 0) {
				g := fv.evalClause(s2, cl, pos, nil, nil)
				fv.obls = append(fv.obls, &Obligation{Func: fi.Key, Class: "F", Kind: "onpanic", Site: pe.site, Pos: fv.pos(pe.site),
					Assume: append([]Term(nil), s2.pc...), Goal: g, Desc: "when " + pe.why + " (exceptional exit after the pending defers ran): " + cl.Text, consts: fv.consts,
					Name: fmt.Sprintf("%s#F.onpanic[%d]", fi.Key, cl.Ord)})
				s2.Assume(g)
			}
			_ = pi
		}
		fv.panicStates = nil
	}
	for _, o := range outs {
		switch o.kind {
		case okNormal, okReturn:
			s2 := o.st
			vals := o.results
			if o.kind == okNormal || (len(vals) == 0 && nres > 0) {
				vals = nil
				for _, rv := range resVars {
					vals = append(vals, s2.vars[rv])
				}
			} else {
				for i, rv := range resVars {
					if i < len(vals) {
						s2.vars[rv] = fv.coerce(vals[i], fv.sortOf(rv.Type()))
					}
				}
			}
			// deferred calls run now (LIFO)
			for i := len(s2.defers) - 1; i >= 0; i-- {
				fv.evalCall(s2, env, s2.defers[i].call)
			}
			if len(resVars) > 0 {
				vals = nil
				for _, rv := range resVars {
					vals = append(vals, s2.vars[rv])
				}
			}
			names := map[string]Term{}
			for i := 0; i < nres && i < len(vals); i++ {
				v := fv.coerce(vals[i], fv.sortOf(sig.Results().At(i).Type()))
				names[fmt.Sprintf("result%d", i)] = v
				if nres == 1 {
					names["result"] = v
				}
			}
			site := o.pos
			if !site.IsValid() {
				site = body.Rbrace
			}
			for _, cl := range fi.Contr.Get("ensures", 0, fv.curLit) {
				g := fv.evalClause(s2, cl, pos, names, nil)
				fv.obls = append(fv.obls, &Obligation{Func: fi.Key, Class: "F", Kind: "ensures", Site: site, Pos: fv.pos(site),
					Assume: append([]Term(nil), s2.pc...), Goal: g, Desc: "postcondition: " + cl.Text, consts: fv.consts,
					Name: fmt.Sprintf("%s#F.ensures[%s%d]", fi.Key, litPrefix(fv.curLit), cl.Ord)})
				// later postconditions on this path may rely on earlier ones (each is checked separately)
				s2.Assume(g)
			}
			if lit != nil {
				// ... and every run of the callback re-establishes it
				for _, cl := range fi.Contr.Get("invariant", 0, fv.curLit) {
					g := fv.evalClause(s2, cl, pos, names, nil)
					fv.obls = append(fv.obls, &Obligation{Func: fi.Key, Class: "F", Kind: "cbinv", Site: site, Pos: fv.pos(site),
						Assume: append([]Term(nil), s2.pc...), Goal: g, Desc: "callback invariant re-established by every run of the callback: " + cl.Text, consts: fv.consts,
						Name: fmt.Sprintf("%s#F.cbinv[%s%d].preserved", fi.Key, litPrefix(fv.curLit), cl.Ord)})
					s2.Assume(g)
				}
			}
			// iterator literal: `yields E` at function level (for the returned literal) => stopped || out == E
			if lit != nil && fv.yieldVar != nil {
				ycls := append(append([]*Clause(nil), fi.Contr.Get("yields", 0, fv.curLit)...), fi.Contr.Get("yields2", 0, fv.curLit)...)
				for _, cl := range ycls {
					e := fv.evalClause(s2, cl, pos, names, nil)
					out := s2.ghost["out"]
					if t, ok := s2.ghost["outText"]; ok && e.Sort == t.Sort {
						out = t
					}
					if cl.Kind == "yields2" {
						out = s2.ghost["out2"]
					}
					var goal Term
					if fv.w.IsSeq(out.Sort) && out.Sort == e.Sort {
						goal = Or(s2.ghost["stopped"], fv.w.SeqEq(out, e))
					} else {
						goal = fv.fresh("badyields", SBool)
						fv.bindErrors = append(fv.bindErrors, cl.Pos+": yields clause has sort "+string(e.Sort)+", iterator yields "+string(out.Sort))
					}
					fv.obls = append(fv.obls, &Obligation{Func: fi.Key, Class: "F", Kind: "yields", Site: site, Pos: fv.pos(site),
						Assume: append([]Term(nil), s2.pc...), Goal: goal, Desc: "iterator ran to completion yields exactly: " + cl.Text, consts: fv.consts,
						Name: fmt.Sprintf("%s#F.%s[%s%d]", fi.Key, cl.Kind, litPrefix(fv.curLit), cl.Ord)})
				}
			}
			retIdx++
			if lit == nil || fv.framedLits[lit] {
				fv.frameObligations(s2, site)
			}
			fv.obls = append(fv.obls, &Obligation{Func: fi.Key, Class: "V", Kind: "exit-reachable", Site: site, Pos: fv.pos(site),
				Assume: append([]Term(nil), s2.pc...), Goal: False, Desc: "some return path is feasible under the contract's assumptions (vacuity guard; any path suffices)", consts: fv.consts, Cover: true,
				Name: fmt.Sprintf("%s#V.exit-reachable[lit%d]", fi.Key, fv.curLit)})
		case okPanic:
		default:
			fv.note("abstracted: break/continue outside loop in %s", fi.Key)
		}
	}
	if fi.Contr.Has("noglobalstate", fv.curLit) {
		status := "unsat"
		desc := "this body neither writes nor reads a package-level variable of /repo (function values aside): its result cannot depend on shared mutable state"
		var bad []string
		bad = append(bad, fv.globalWrites...)
		for r := range fv.globalReads {
			bad = append(bad, "reads "+r)
		}
		sort.Strings(bad)
		if len(bad) > 0 {
			status = "failed"
			desc = "body uses package-level state: " + strings.Join(bad, "; ")
		}
		fv.obls = append(fv.obls, &Obligation{Func: fi.Key, Class: "R", Kind: "noglobalstate", Site: pos, Pos: fv.pos(pos), Goal: True,
			Desc: desc, consts: fv.consts, Name: fmt.Sprintf("%s#R.noglobalstate[lit%d]", fi.Key, fv.curLit), Status: status, Solver: "govc-analysis"})
	}
	if fi.Contr.Has("ordered", fv.curLit) {
		status := "unsat"
		desc := "no user code (generator / callback / snippet iterator) is run, and nothing is yielded, from inside a loop whose order is Go's map iteration order: the ORDER of this body's side effects is a function of its inputs' contents"
		if len(fv.orderLeaks) > 0 {
			status = "failed"
			l := append([]string(nil), fv.orderLeaks...)
			sort.Strings(l)
			desc = "order of side effects depends on map iteration order: " + strings.Join(slices.Compact(l), "; ")
		}
		fv.obls = append(fv.obls, &Obligation{Func: fi.Key, Class: "R", Kind: "ordered", Site: pos, Pos: fv.pos(pos), Goal: True,
			Desc: desc, consts: fv.consts, Name: fmt.Sprintf("%s#R.ordered[lit%d]", fi.Key, fv.curLit), Status: status, Solver: "govc-analysis"})
	}
	if fi.Contr.Has("noglobals", fv.curLit) {
		status := "unsat"
		desc := "no statement of this body stores to a package-level variable"
		if len(fv.globalWrites) > 0 {
			status = "failed"
			desc = "body stores to package-level state: " + strings.Join(fv.globalWrites, "; ")
		}
		fv.obls = append(fv.obls, &Obligation{Func: fi.Key, Class: "R", Kind: "noglobals", Site: pos, Pos: fv.pos(pos), Goal: True,
			Desc: desc, consts: fv.consts, Name: fmt.Sprintf("%s#R.noglobals[lit%d]", fi.Key, fv.curLit), Status: status, Solver: "govc-analysis"})
	}
	if lit == nil && fi.Contr.Has("functional", 0) {
		status := "unsat"
		desc := "the result is a deterministic function of arguments and heap: no havoc, no unknown call, no order-dependent iteration met"
		if len(fv.nondet) > 0 {
			status = "failed"
			desc = "function is declared functional but its execution met nondeterminism: " + strings.Join(fv.nondet, "; ")
		}
		fv.obls = append(fv.obls, &Obligation{Func: fi.Key, Class: "R", Kind: "functional", Site: pos, Pos: fv.pos(pos), Goal: True,
			Desc: desc, consts: fv.consts, Name: fi.Key + "#R.functional", Status: status, Solver: "govc-determinism-analysis"})
	}
	_ = retIdx
}

func litPrefix(n int) string {
	if n == 0 {
		return ""
	}
	return fmt.Sprintf("lit%d,", n)
}

// frameObligations: for a function with `pure` or `assigns`, every heap cell that existed on entry and is not
// named by an assigns target is unchanged at this return; map parameters not named are unchanged.
func (fv *FuncVerifier) frameObligations(s2 *State, site token.Pos) {
	c := fv.fn.Contr
	if c == nil || !(c.Has("pure", 0) || c.Has("assigns", 0)) {
		return
	}
	star := false
	type target struct {
		key string
		ref Term
	}
	var targets []target
	paramTargets := map[string]bool{}
	for _, cl := range c.Get("assigns", 0, 0) {
		for _, tgt := range splitTopLevel(cl.Text, ',') {
			tgt = strings.TrimSpace(tgt)
			switch tgt {
			case "", "nothing":
				continue
			case "*":
				star = true
				continue
			}
			isContent := false
			if strings.HasPrefix(tgt, "content(") && strings.HasSuffix(tgt, ")") {
				isContent = true
				tgt = tgt[len("content(") : len(tgt)-1]
			}
			if strings.HasPrefix(tgt, "abs(") && strings.HasSuffix(tgt, ")") {
				ref, t := fv.evalPathIn(fv.fn, fv.entry, tgt[len("abs("):len(tgt)-1], fv.entryParams)
				if k := absKey(t); k != "" && ref.Sort == SRef {
					targets = append(targets, target{k, ref})
				} else {
					fv.bindErrors = append(fv.bindErrors, cl.Pos+": assigns target "+tgt+" is not a path to a /repo interface value")
				}
				continue
			}
			parts := strings.Split(tgt, ".")
			if len(parts) == 1 && !isContent {
				paramTargets[parts[0]] = true
				continue
			}
			var pobj types.Object
			for o := range fv.entryParams {
				if o.Name() == parts[0] {
					pobj = o
				}
			}
			if pobj == nil {
				fv.bindErrors = append(fv.bindErrors, cl.Pos+": assigns target "+tgt+" does not start with a parameter")
				continue
			}
			ref := fv.entryParams[pobj]
			ct := pobj.Type()
			if isContent && len(parts) == 1 {
				targets = append(targets, target{contentKey, ref})
			}
			for k := 1; k < len(parts); k++ {
				p, ok := ct.Underlying().(*types.Pointer)
				if !ok {
					fv.bindErrors = append(fv.bindErrors, cl.Pos+": assigns target "+tgt+": not a pointer path")
					break
				}
				stt, _ := p.Elem().Underlying().(*types.Struct)
				var fld *types.Var
				for j := 0; stt != nil && j < stt.NumFields(); j++ {
					if stt.Field(j).Name() == parts[k] {
						fld = stt.Field(j)
					}
				}
				if fld == nil {
					fv.bindErrors = append(fv.bindErrors, cl.Pos+": assigns target "+tgt+": no field "+parts[k])
					break
				}
				key := fieldKey(ct, fld.Name())
				if k == len(parts)-1 && isContent {
					ref = fv.readField(fv.entry, ref, key, fv.sortOf(fld.Type()))
					targets = append(targets, target{contentKey, ref})
				} else if k == len(parts)-1 {
					targets = append(targets, target{key, ref})
				} else {
					ref = fv.readField(fv.entry, ref, key, fv.sortOf(fld.Type()))
					ct = fld.Type()
				}
			}
		}
	}
	mk0 := func(name string, goal Term, desc string) {
		fv.obls = append(fv.obls, &Obligation{Func: fv.fn.Key, Class: "R", Kind: "frame", Site: site, Pos: fv.pos(site),
			Assume: append([]Term(nil), s2.pc...), Goal: goal, Desc: desc, consts: fv.consts, Name: fv.fn.Key + "#R.frame[" + fv.litTag() + name + "]"})
	}
	if !c.Has("effects", 0) {
		for _, k := range []string{"fx", "calls", "pipeline"} {
			if hf, ok := s2.heap["$ghost:"+k]; ok {
				h0 := fv.heapGet(fv.entry, "$ghost:"+k, hf.Sort)
				if hf.S != h0.S {
					mk0("log:"+k, fv.w.SeqEq(hf, h0), "the ghost "+k+" log is unchanged (the contract has no `effects` clause)")
				}
			}
		}
	}
	pfx, exc := preservesOf(c)
	if star && pfx == "" {
		return
	}
	mk := func(name string, goal Term, desc string) {
		fv.obls = append(fv.obls, &Obligation{Func: fv.fn.Key, Class: "R", Kind: "frame", Site: site, Pos: fv.pos(site),
			Assume: append([]Term(nil), s2.pc...), Goal: goal, Desc: desc, consts: fv.consts, Name: fv.fn.Key + "#R.frame[" + fv.litTag() + name + "]"})
	}
	keyOK := func(k string) bool {
		if !star {
			return true
		}
		return havocEvent{prefix: pfx, except: exc}.preserves(k)
	}
	if s2.epoch != fv.entry.epoch {
		if !star {
			mk("*", False, "an effect with unknown footprint happened on this path (call without contract / unknown external), but the contract promises a frame")
			return
		}
		// assigns * with `preserves`: every havoc on this path must itself have preserved the promised fields
		for _, h := range s2.havocs {
			// the event must preserve every prefix we promise, and may except only what we except
			ok := h.prefix != ""
			for _, mine := range strings.Fields(pfx) {
				has := false
				for _, theirs := range strings.Fields(h.prefix) {
					if strings.HasPrefix(mine, theirs) {
						has = true
					}
				}
				if !has {
					ok = false
				}
			}
			for _, e := range h.except {
				found := false
				for _, e2 := range exc {
					if e2 == e {
						found = true
					}
				}
				if !found {
					ok = false
				}
			}
			if !ok {
				mk("preserves", False, fmt.Sprintf("a call with unknown effects on this path does not promise to preserve the fields %s* (havoc events: %+v)", pfx, s2.havocs))
				return
			}
		}
	}
	al0 := fv.heapGet(fv.entry, "$ghost:alloc", "(Array Ref Bool)")
	keys := map[string]bool{}
	for k := range s2.heap {
		keys[k] = true
	}
	for k := range s2.hmark {
		keys[k] = true
	}
	var ks []string
	for k := range keys {
		if strings.HasPrefix(k, "$ghost:") {
			continue
		}
		ks = append(ks, k)
	}
	sort.Strings(ks)
	if os.Getenv("GOVC_DEBUG") != "" {
		fmt.Fprintln(os.Stderr, "DEBUG frame keys", fv.fn.Key, ks)
	}
	for _, k := range ks {
		if !keyOK(k) {
			continue
		}
		hf, ok := s2.heap[k]
		var srt Sort
		if ok {
			srt = hf.Sort
		} else if h0, ok0 := fv.entry.heap[k]; ok0 {
			srt = h0.Sort
		} else if ks, ok1 := fv.keySorts[k]; ok1 {
			// written inside a loop (havocked at its head) and never read afterwards: still a change to account for
			srt = ks
		} else {
			continue
		}
		hf = fv.heapGet(s2, k, srt)
		h0 := fv.heapGet(fv.entry, k, srt)
		if os.Getenv("GOVC_DEBUG") != "" && strings.HasPrefix(k, "$sync") {
			fmt.Fprintln(os.Stderr, "DEBUG frame", k, srt, "|", hf.S, "|", h0.S)
		}
		if hf.S == h0.S {
			continue
		}
		if strings.HasPrefix(k, "$global:") {
			if gn := k[strings.LastIndex(k, ".")+1:]; paramTargets[gn] {
				continue // a package-level variable named in assigns
			}
			mk(k, App(SBool, "=", hf, h0), "package-level variable "+strings.TrimPrefix(k, "$global:")+" is unchanged (not named in assigns)")
			continue
		}
		if !strings.HasPrefix(string(srt), "(Array Ref ") {
			continue
		}
		var excl []Term
		for _, t := range targets {
			if t.key == k {
				excl = append(excl, Not(App(SBool, "=", Term{"r$", SRef}, t.ref)))
			}
		}
		cond := And(append([]Term{App(SBool, "select", al0, Term{"r$", SRef})}, excl...)...)
		if owner, ok := keyOwner[k]; ok {
			// a field only exists in objects of its own type
			cond = And(cond, App(SBool, "=", App(SInt, "dyn", Term{"r$", SRef}), fv.w.Tag(owner)))
		}
		goal := T(SBool, "(forall ((r$ Ref)) (=> %s (= (select %s r$) (select %s r$))))", cond.S, hf.S, h0.S)
		mk(k, goal, "heap field "+k+" of every object that existed on entry and is not named in assigns is unchanged")
	}
	if star {
		return
	}
	// map parameters are references: unchanged unless named
	for o, v0 := range fv.entryParams {
		if _, isMap := o.Type().Underlying().(*types.Map); !isMap || paramTargets[o.Name()] {
			continue
		}
		if vf, ok := s2.vars[o]; ok && vf.S != v0.S {
			mk("param:"+o.Name(), App(SBool, "=", vf, v0), "map parameter "+o.Name()+" is unchanged (not named in assigns)")
		}
	}
}
