package main

import (
	"fmt"
	"os"
	"regexp"
	"strconv"
	"go/ast"
	"go/token"
	"go/types"
	"strings"
)

// maxLivePaths: above this many simultaneously live paths they are joined into one state.
const maxLivePaths = 24

const (
	okNormal = iota
	okBreak
	okContinue
	okReturn
	okPanic
)

// Outcome is one way a statement list can end.
type Outcome struct {
	st      *State
	kind    int
	label   string
	results []Term
	pos     token.Pos
}

func (fv *FuncVerifier) execBlock(st *State, env *Env, stmts []ast.Stmt) []Outcome {
	cur := []*State{st}
	var outs []Outcome
	for _, s := range stmts {
		var next []*State
		for _, c := range cur {
			for _, o := range fv.execStmt(c, env, s) {
				if o.kind == okNormal {
					next = append(next, o.st)
				} else {
					outs = append(outs, o)
				}
			}
		}
		cur = next
		if len(cur) > maxLivePaths {
			// too many paths: join
			j := cur[0].Clone()
			fv.joinInto(j, cur)
			cur = []*State{j}
		}
		if len(cur) == 0 {
			break
		}
	}
	for _, c := range cur {
		outs = append(outs, Outcome{st: c, kind: okNormal})
	}
	return outs
}

func normal(st *State) []Outcome { return []Outcome{{st: st, kind: okNormal}} }

func (fv *FuncVerifier) execStmt(st *State, env *Env, s ast.Stmt) []Outcome {
	switch x := s.(type) {
	case *ast.BlockStmt:
		return fv.execBlock(st, env, x.List)
	case *ast.ExprStmt:
		if call, ok := ast.Unparen(x.X).(*ast.CallExpr); ok {
			fv.evalCall(st, env, call)
		} else {
			fv.eval(st, env, x.X)
		}
		return normal(st)
	case *ast.AssignStmt:
		fv.trackReslice(st, env, x)
		fv.execAssign(st, env, x)
		return normal(st)
	case *ast.DeclStmt:
		if gd, ok := x.Decl.(*ast.GenDecl); ok {
			for _, sp := range gd.Specs {
				vs, ok := sp.(*ast.ValueSpec)
				if !ok {
					continue
				}
				if len(vs.Values) == 1 && len(vs.Names) > 1 {
					vals := fv.evalMulti(st, env, vs.Values[0], len(vs.Names))
					for i, n := range vs.Names {
						fv.define(st, env, n, vals[i], nil)
					}
					continue
				}
				for i, n := range vs.Names {
					o := env.info.Defs[n]
					if o == nil {
						continue
					}
					if i < len(vs.Values) {
						v := fv.eval(st, env, vs.Values[i])
						fv.define(st, env, n, v, fv.typeOf(env, vs.Values[i]))
					} else {
						if isContentObject(o.Type()) {
							if _, isPtr := o.Type().(*types.Pointer); !isPtr {
								r := fv.alloc(st, types.NewPointer(o.Type()), n.Name)
								fv.specialAlloc(st, r, o.Type())
								st.vars[o] = r
								fv.maybeProtect(st, o, r)
								continue
							}
						}
						st.vars[o] = fv.zero(fv.sortOf(o.Type()))
					}
				}
			}
		}
		return normal(st)
	case *ast.IncDecStmt:
		v := fv.eval(st, env, x.X)
		var nv Term
		if x.Tok == token.INC {
			nv = Add(v, IntLit(1))
		} else {
			nv = Sub(v, IntLit(1))
		}
		fv.assignTo(st, env, x.X, nv, nil)
		return normal(st)
	case *ast.IfStmt:
		return fv.execIf(st, env, x)
	case *ast.ForStmt:
		return fv.execFor(st, env, x, "")
	case *ast.RangeStmt:
		return fv.execRange(st, env, x, "")
	case *ast.LabeledStmt:
		switch y := x.Stmt.(type) {
		case *ast.ForStmt:
			return fv.execFor(st, env, y, x.Label.Name)
		case *ast.RangeStmt:
			return fv.execRange(st, env, y, x.Label.Name)
		}
		return fv.execStmt(st, env, x.Stmt)
	case *ast.SwitchStmt:
		return fv.execSwitch(st, env, x)
	case *ast.TypeSwitchStmt:
		return fv.execTypeSwitch(st, env, x)
	case *ast.ReturnStmt:
		var res []Term
		if len(x.Results) == 1 {
			if call, ok := ast.Unparen(x.Results[0]).(*ast.CallExpr); ok {
				res = fv.evalCall(st, env, call)
				return []Outcome{{st: st, kind: okReturn, results: res, pos: x.Return}}
			}
		}
		for _, r := range x.Results {
			v := fv.eval(st, env, r)
			if rt := env.info.TypeOf(r); rt != nil && v.Sort == SRef {
				if _, isStruct := rt.Underlying().(*types.Struct); isStruct {
					// a struct VALUE (an opaque reference in the model) is never nil - also not once boxed into an interface result
					st.Assume(Not(App(SBool, "=", v, Null)))
				}
			}
			res = append(res, v)
		}
		// remember static types for interface conversion at the return handler
		return []Outcome{{st: st, kind: okReturn, results: res, pos: x.Return}}
	case *ast.BranchStmt:
		label := ""
		if x.Label != nil {
			label = x.Label.Name
		}
		switch x.Tok {
		case token.BREAK:
			return []Outcome{{st: st, kind: okBreak, label: label}}
		case token.CONTINUE:
			return []Outcome{{st: st, kind: okContinue, label: label}}
		}
		fv.note("abstracted: %s at %s", x.Tok, fv.pos(x.Pos()))
		return normal(st)
	case *ast.DeferStmt:
		st.defers = append(st.defers, deferred{call: x.Call})
		// arguments of deferred calls are evaluated now; closures are evaluated at run time — accepted imprecision
		return normal(st)
	case *ast.EmptyStmt:
		return normal(st)
	case *ast.GoStmt, *ast.SendStmt, *ast.SelectStmt:
		fv.note("abstracted: concurrency statement at %s (outside the subset): heap havocked", fv.pos(s.Pos()))
		fv.havocAll(st)
		return normal(st)
	}
	fv.note("abstracted: statement %T at %s", s, fv.pos(s.Pos()))
	return normal(st)
}

// trackReslice: slices are modelled as VALUES, so writes through a shared backing array are invisible to the model.
// The one idiom that makes such a write observable to other holders of a slice is `t := s[:k]` (k < len(s)) followed
// by `append(t, ...)`, which overwrites s[k:]. A variable assigned a two-index reslice of a slice that is not local to
// this function (read from the heap or a parameter) is remembered; appending to it then requires k == len(s)
// (obligation S.alias-append). `x = append(x, ..)` keeps the mark, any other assignment clears it.
func (fv *FuncVerifier) trackReslice(st *State, env *Env, x *ast.AssignStmt) {
	if len(x.Lhs) != len(x.Rhs) {
		return
	}
	for i, l := range x.Lhs {
		id, ok := ast.Unparen(l).(*ast.Ident)
		if !ok {
			continue
		}
		o := env.info.ObjectOf(id)
		if o == nil {
			continue
		}
		if st.resliced == nil {
			st.resliced = map[types.Object][2]Term{}
		}
		switch r := ast.Unparen(x.Rhs[i]).(type) {
		case *ast.SliceExpr:
			if t := fv.typeOf(env, r.X); t != nil && !r.Slice3 {
				// (a reslice of a variable that is itself remembered as an alias stays an alias - also after the
				// variable was havocked at a loop head: x = x[1:] inside a loop)
				markedSrc := false
				if sid, ok := ast.Unparen(r.X).(*ast.Ident); ok {
					_, markedSrc = st.resliced[env.info.ObjectOf(sid)]
				}
				if _, isSl := t.Underlying().(*types.Slice); isSl && (markedSrc || fv.sharedSliceExpr(st, env, r.X)) {
					saveObls := len(fv.obls)
					base := fv.eval(st, env, r.X)
					hi := fv.w.SeqLen(base)
					if r.High != nil {
						hi = fv.eval(st, env, r.High)
					}
					fv.obls = fv.obls[:saveObls] // evaluated again by the assignment itself
					st.resliced[o] = [2]Term{base, hi}
					continue
				}
			}
			delete(st.resliced, o)
		case *ast.CallExpr:
			if fn, ok := ast.Unparen(r.Fun).(*ast.Ident); ok && fn.Name == "append" && len(r.Args) > 0 {
				if a0, ok := ast.Unparen(r.Args[0]).(*ast.Ident); ok && env.info.ObjectOf(a0) == o {
					continue // x = append(x, ...): still backed by the same array (while capacity lasts)
				}
			}
			if fn, ok := calleeOf(env.info, r).(*types.Func); ok && inPlaceSliceMutators[fn.FullName()] && len(r.Args) > 0 {
				if a0, ok := ast.Unparen(r.Args[0]).(*ast.Ident); ok && env.info.ObjectOf(a0) == o {
					continue // x = slices.Insert(x, ...) and the like: same backing array; the call itself is guarded (S.alias-mutate)
				}
			}
			delete(st.resliced, o)
		default:
			// plain alias `x := p.field` / `x := param` of a slice this function does not own: x IS that slice
			if t := fv.typeOf(env, x.Rhs[i]); t != nil {
				if _, isSl := t.Underlying().(*types.Slice); isSl && fv.sharedSliceExpr(st, env, x.Rhs[i]) {
					if _, isCall := ast.Unparen(x.Rhs[i]).(*ast.CallExpr); !isCall {
						saveObls := len(fv.obls)
						base := fv.eval(st, env, x.Rhs[i])
						fv.obls = fv.obls[:saveObls]
						if fv.w.IsSeq(base.Sort) {
							st.resliced[o] = [2]Term{base, fv.w.SeqLen(base)}
							continue
						}
					}
				}
			}
			delete(st.resliced, o)
		}
	}
}

// sharedSliceExpr: the slice denoted by e may be held by someone else (it is read from the heap, a map, or is a
// parameter), as opposed to a slice this function built itself.
func (fv *FuncVerifier) sharedSliceExpr(st *State, env *Env, e ast.Expr) bool {
	switch x := ast.Unparen(e).(type) {
	case *ast.SelectorExpr, *ast.IndexExpr:
		return true
	case *ast.Ident:
		o := env.info.ObjectOf(x)
		if o == nil {
			return false
		}
		if _, isParam := fv.entryParams[o]; isParam {
			return true
		}
		if v, ok := st.vars[o]; ok {
			return strings.Contains(v.S, "(select ") || strings.Contains(v.S, "H_")
		}
	}
	return false
}

func (fv *FuncVerifier) evalMulti(st *State, env *Env, e ast.Expr, n int) []Term {
	w := fv.w
	switch x := ast.Unparen(e).(type) {
	case *ast.CallExpr:
		rs := fv.evalCall(st, env, x)
		for len(rs) < n {
			rs = append(rs, fv.fresh("missing", SRef))
		}
		return rs
	case *ast.IndexExpr: // v, ok := m[k]
		m := fv.eval(st, env, x.X)
		k := fv.eval(st, env, x.Index)
		if w.IsMap(m.Sort) {
			k = fv.coerce(k, w.mapKV[m.Sort][0])
			return []Term{w.MapGet(m, k, fv.zero(w.mapKV[m.Sort][1])), w.MapHas(m, k)}
		}
	case *ast.TypeAssertExpr: // v, ok := x.(T)
		v := fv.eval(st, env, x.X)
		tt := fv.typeOf(env, x.Type)
		ok := fv.dynIs(v, tt)
		val := fv.unboxAs(v, tt)
		return []Term{Ite(ok, val, fv.zero(val.Sort)), ok}
	}
	out := []Term{fv.eval(st, env, e)}
	for len(out) < n {
		out = append(out, fv.fresh("missing", SRef))
	}
	return out
}

func (fv *FuncVerifier) define(st *State, env *Env, id *ast.Ident, v Term, from types.Type) {
	if id.Name == "_" {
		return
	}
	o := env.info.Defs[id]
	if o == nil {
		o = env.info.Uses[id]
	}
	if o == nil {
		return
	}
	st.vars[o] = fv.convert(st, v, from, o.Type())
	fv.maybeProtect(st, o, st.vars[o])
}

func (fv *FuncVerifier) execAssign(st *State, env *Env, x *ast.AssignStmt) {
	// compound assignment
	if x.Tok != token.ASSIGN && x.Tok != token.DEFINE {
		op := map[token.Token]token.Token{token.ADD_ASSIGN: token.ADD, token.SUB_ASSIGN: token.SUB, token.MUL_ASSIGN: token.MUL,
			token.QUO_ASSIGN: token.QUO, token.REM_ASSIGN: token.REM}[x.Tok]
		be := &ast.BinaryExpr{X: x.Lhs[0], Op: op, Y: x.Rhs[0], OpPos: x.TokPos}
		l := fv.eval(st, env, x.Lhs[0])
		r := fv.eval(st, env, x.Rhs[0])
		var v Term
		switch op {
		case token.ADD:
			if fv.w.IsSeq(l.Sort) {
				v = fv.w.SeqCat(l, r)
			} else {
				v = Add(l, r)
			}
		case token.SUB:
			v = Sub(l, r)
		case token.MUL:
			v = App(SInt, "*", l, r)
		default:
			_ = be
			v = fv.unsupported(st, env, x, "compound assignment "+x.Tok.String(), l.Sort)
		}
		fv.assignTo(st, env, x.Lhs[0], v, nil)
		return
	}
	var vals []Term
	var froms []types.Type
	if len(x.Rhs) == 1 && len(x.Lhs) > 1 {
		vals = fv.evalMulti(st, env, x.Rhs[0], len(x.Lhs))
		froms = make([]types.Type, len(vals))
		if tup, ok := fv.typeOf(env, x.Rhs[0]).(*types.Tuple); ok {
			for i := 0; i < tup.Len() && i < len(froms); i++ {
				froms[i] = tup.At(i).Type()
			}
		}
	} else {
		for _, r := range x.Rhs {
			vals = append(vals, fv.eval(st, env, r))
			froms = append(froms, fv.typeOf(env, r))
		}
	}
	for i, l := range x.Lhs {
		if i >= len(vals) {
			break
		}
		if id, ok := l.(*ast.Ident); ok && x.Tok == token.DEFINE {
			if env.info.Defs[id] != nil {
				fv.define(st, env, id, vals[i], froms[i])
				continue
			}
		}
		fv.assignTo(st, env, l, vals[i], froms[i])
	}
}

// assignTo stores v into the lvalue l.
func (fv *FuncVerifier) assignTo(st *State, env *Env, l ast.Expr, v Term, from types.Type) {
	w := fv.w
	switch x := ast.Unparen(l).(type) {
	case *ast.Ident:
		if x.Name == "_" {
			return
		}
		o := env.info.ObjectOf(x)
		if o == nil {
			return
		}
		v = fv.convert(st, v, from, o.Type())
		if ov, ok := o.(*types.Var); ok && ov.Pkg() != nil && ov.Parent() == ov.Pkg().Scope() {
			st.heap[fv.globalKey(o)] = v
			fv.globalWrites = append(fv.globalWrites, fv.globalKey(o)+" at "+fv.pos(x.Pos()))
			return
		}
		if env.binds != nil {
			if _, ok := env.binds[o]; ok {
				env.binds[o] = v
				return
			}
		}
		st.vars[o] = v
	case *ast.IndexExpr:
		base := fv.eval(st, env, x.X)
		idx := fv.eval(st, env, x.Index)
		switch {
		case w.IsSeq(base.Sort):
			fv.oblige(st, env, "S", "index", And(Le(IntLit(0), idx), Lt(idx, w.SeqLen(base))), x.Lbrack, "index in range (store)")
			v = fv.convert(st, v, from, elemTypeOf(fv.typeOf(env, x.X)))
			fv.assignTo(st, env, x.X, w.SeqUpd(base, idx, fv.coerce(v, w.elemOf[base.Sort])), nil)
		case w.IsMap(base.Sort):
			fv.oblige(st, env, "S", "nilmap", Not(w.MapIsNil(base)), x.Lbrack, "assignment to entry of non-nil map")
			v = fv.convert(st, v, from, elemTypeOf(fv.typeOf(env, x.X)))
			fv.assignTo(st, env, x.X, w.MapPut(base, fv.coerce(idx, w.mapKV[base.Sort][0]), fv.coerce(v, w.mapKV[base.Sort][1])), nil)
		default:
			fv.note("abstracted: store through %s at %s", exprString(l), fv.pos(l.Pos()))
		}
	case *ast.SelectorExpr:
		sel, ok := env.info.Selections[x]
		if !ok {
			// package-level variable of another package
			if o := env.info.ObjectOf(x.Sel); o != nil {
				st.heap[fv.globalKey(o)] = fv.coerce(v, fv.sortOf(o.Type()))
				fv.globalWrites = append(fv.globalWrites, fv.globalKey(o)+" at "+fv.pos(x.Pos()))
			}
			return
		}
		base := fv.eval(st, env, x.X)
		bt := fv.typeOf(env, x.X)
		path := sel.Index()
		if len(path) > 1 {
			base = fv.walkFields(st, env, base, bt, path[:len(path)-1], x.Sel.Pos())
			// static type after walking
			ct := bt
			for _, idx := range path[:len(path)-1] {
				var stt *types.Struct
				if p, ok := ct.Underlying().(*types.Pointer); ok {
					stt, _ = p.Elem().Underlying().(*types.Struct)
				} else {
					stt, _ = ct.Underlying().(*types.Struct)
				}
				ct = stt.Field(idx).Type()
			}
			bt = ct
		}
		f := sel.Obj().(*types.Var)
		v = fv.convert(st, v, from, f.Type())
		if _, isPtr := bt.Underlying().(*types.Pointer); isPtr {
			fv.oblige(st, env, "S", "nilderef", Not(App(SBool, "=", base, Null)), x.Sel.Pos(), "field store through non-nil pointer")
			fv.writeField(st, base, fieldKey(bt, f.Name()), fv.sortOf(f.Type()), fv.coerce(v, fv.sortOf(f.Type())))
			return
		}
		if w.IsStruct(base.Sort) && len(path) == 1 {
			fv.assignTo(st, env, x.X, w.StructSet(base, f.Name(), fv.coerce(v, fv.sortOf(f.Type()))), nil)
			return
		}
		fv.note("abstracted: store to %s at %s", exprString(l), fv.pos(l.Pos()))
	case *ast.StarExpr:
		p := fv.eval(st, env, x.X)
		fv.oblige(st, env, "S", "nilderef", Not(App(SBool, "=", p, Null)), x.Star, "store through non-nil pointer")
		et := fv.typeOf(env, l)
		s := fv.sortOf(et)
		if w.IsStruct(s) {
			fv.storeStruct(st, p, et, v)
		} else {
			fv.writeField(st, p, "$deref:"+string(s), s, fv.coerce(v, s))
		}
	default:
		fv.note("abstracted: assignment to %T at %s", l, fv.pos(l.Pos()))
	}
}

func elemTypeOf(t types.Type) types.Type {
	if t == nil {
		return nil
	}
	switch x := t.Underlying().(type) {
	case *types.Slice:
		return x.Elem()
	case *types.Array:
		return x.Elem()
	case *types.Map:
		return x.Elem()
	}
	return nil
}

func (fv *FuncVerifier) execIf(st *State, env *Env, x *ast.IfStmt) []Outcome {
	if x.Init != nil {
		outs := fv.execStmt(st, env, x.Init)
		if len(outs) != 1 || outs[0].kind != okNormal {
			return outs
		}
		st = outs[0].st
	}
	// short-circuit evaluation matters when the right operand has effects (`if i > 0 && !yield(sep) { return }`):
	//   if A && B {T} else {E}  ==  if A { if B {T} else {E} } else {E}
	//   if A || B {T} else {E}  ==  if A {T} else { if B {T} else {E} }
	if be, ok := ast.Unparen(x.Cond).(*ast.BinaryExpr); ok && (be.Op == token.LAND || be.Op == token.LOR) && fv.hasEffectfulCall(env, be.Y) {
		inner := &ast.IfStmt{If: x.If, Cond: be.Y, Body: x.Body, Else: x.Else}
		if be.Op == token.LAND {
			return fv.execIf(st, env, &ast.IfStmt{If: x.If, Cond: be.X, Body: &ast.BlockStmt{Lbrace: x.Body.Lbrace, List: []ast.Stmt{inner}, Rbrace: x.Body.Rbrace}, Else: x.Else})
		}
		return fv.execIf(st, env, &ast.IfStmt{If: x.If, Cond: be.X, Body: x.Body, Else: inner})
	}
	c := fv.eval(st, env, x.Cond)
	var outs []Outcome
	thenSt := st.Clone()
	thenSt.Assume(c)
	outs = append(outs, fv.execBlock(thenSt, env, x.Body.List)...)
	elseSt := st.Clone()
	elseSt.Assume(Not(c))
	if x.Else != nil {
		outs = append(outs, fv.execStmt(elseSt, env, x.Else)...)
	} else {
		outs = append(outs, Outcome{st: elseSt, kind: okNormal})
	}
	return fv.mergeNormals(outs)
}

// hasEffectfulCall: e contains a call that may have effects (anything but conversions, builtins, spec functions and
// methods/functions the engine treats as pure observers is assumed to).
func (fv *FuncVerifier) hasEffectfulCall(env *Env, e ast.Expr) bool {
	found := false
	ast.Inspect(e, func(n ast.Node) bool {
		if found {
			return false
		}
		switch c := n.(type) {
		case *ast.FuncLit:
			return false
		case *ast.CallExpr:
			if tv, ok := env.info.Types[c.Fun]; ok && (tv.IsType() || tv.IsBuiltin()) {
				return true
			}
			switch callee := calleeOf(env.info, c).(type) {
			case *types.Func:
				if isSpecName(callee.Name()) {
					return true
				}
				if fi := fv.prog.ByObj[callee.Origin()]; fi != nil && fi.Contr != nil && fi.Contr.Has("pure", 0) {
					return true
				}
				if callee.Pkg() != nil && !strings.HasPrefix(callee.Pkg().Path(), repoModule) {
					full := callee.FullName()
					if o := callee.Origin(); o != nil {
						full = o.FullName()
					}
					if _, has := externs[full]; !has && externPolicy(callee.Pkg().Path(), full) == "pure" {
						return true
					}
				}
				found = true
			default:
				found = true // function value (yield, callback)
			}
		}
		return true
	})
	return found
}

// mergeNormals joins the normal outcomes of a branching statement into one state (keeps path count linear).
func (fv *FuncVerifier) mergeNormals(outs []Outcome) []Outcome {
	nn := 0
	for _, o := range outs {
		if o.kind == okNormal {
			nn++
		}
	}
	if nn <= maxLivePaths {
		return outs // keep paths separate: simpler queries; execBlock joins when there are too many
	}
	var normals []*State
	var rest []Outcome
	for _, o := range outs {
		if o.kind == okNormal {
			normals = append(normals, o.st)
		} else {
			rest = append(rest, o)
		}
	}
	if len(normals) <= 1 {
		return outs
	}
	j := normals[0].Clone()
	fv.joinInto(j, normals)
	return append(rest, Outcome{st: j, kind: okNormal})
}

func (fv *FuncVerifier) execSwitch(st *State, env *Env, x *ast.SwitchStmt) []Outcome {
	if x.Init != nil {
		outs := fv.execStmt(st, env, x.Init)
		if len(outs) != 1 || outs[0].kind != okNormal {
			return outs
		}
		st = outs[0].st
	}
	var tag Term
	hasTag := x.Tag != nil
	if hasTag {
		tag = fv.eval(st, env, x.Tag)
	}
	var outs []Outcome
	var notPrev []Term
	var deflt *ast.CaseClause
	for _, c := range x.Body.List {
		cc := c.(*ast.CaseClause)
		if cc.List == nil {
			deflt = cc
			continue
		}
		var conds []Term
		for _, e := range cc.List {
			v := fv.eval(st, env, e)
			if hasTag {
				if fv.w.IsSeq(tag.Sort) {
					conds = append(conds, fv.w.SeqEq(tag, fv.coerce(v, tag.Sort)))
				} else {
					conds = append(conds, App(SBool, "=", tag, fv.coerce(v, tag.Sort)))
				}
			} else {
				conds = append(conds, v)
			}
		}
		cond := Or(conds...)
		cs := st.Clone()
		for _, n := range notPrev {
			cs.Assume(n)
		}
		cs.Assume(cond)
		outs = append(outs, fv.execCaseBody(cs, env, cc.Body)...)
		notPrev = append(notPrev, Not(cond))
	}
	ds := st.Clone()
	for _, n := range notPrev {
		ds.Assume(n)
	}
	if deflt != nil {
		outs = append(outs, fv.execCaseBody(ds, env, deflt.Body)...)
	} else {
		outs = append(outs, Outcome{st: ds, kind: okNormal})
	}
	return fv.mergeNormals(outs)
}

// execCaseBody runs a case body; an unlabeled break leaves the switch.
func (fv *FuncVerifier) execCaseBody(st *State, env *Env, body []ast.Stmt) []Outcome {
	outs := fv.execBlock(st, env, body)
	for i := range outs {
		if outs[i].kind == okBreak && outs[i].label == "" {
			outs[i].kind = okNormal
		}
	}
	for _, s := range body {
		if b, ok := s.(*ast.BranchStmt); ok && b.Tok == token.FALLTHROUGH {
			fv.note("abstracted: fallthrough at %s", fv.pos(b.Pos()))
		}
	}
	return outs
}

func (fv *FuncVerifier) execTypeSwitch(st *State, env *Env, x *ast.TypeSwitchStmt) []Outcome {
	if x.Init != nil {
		outs := fv.execStmt(st, env, x.Init)
		if len(outs) != 1 || outs[0].kind != okNormal {
			return outs
		}
		st = outs[0].st
	}
	var subject ast.Expr
	var bindName *ast.Ident
	switch a := x.Assign.(type) {
	case *ast.AssignStmt:
		bindName = a.Lhs[0].(*ast.Ident)
		subject = a.Rhs[0].(*ast.TypeAssertExpr).X
	case *ast.ExprStmt:
		subject = a.X.(*ast.TypeAssertExpr).X
	}
	v := fv.eval(st, env, subject)
	var outs []Outcome
	var notPrev []Term
	var deflt *ast.CaseClause
	for _, c := range x.Body.List {
		cc := c.(*ast.CaseClause)
		if cc.List == nil {
			deflt = cc
			continue
		}
		var conds []Term
		for _, e := range cc.List {
			if isNilIdent(e) {
				conds = append(conds, App(SBool, "=", v, Null))
				continue
			}
			conds = append(conds, fv.dynIs(v, fv.typeOf(env, e)))
		}
		cond := Or(conds...)
		cs := st.Clone()
		for _, n := range notPrev {
			cs.Assume(n)
		}
		cs.Assume(cond)
		if bindName != nil {
			if o := env.info.Implicits[cc]; o != nil {
				if len(cc.List) == 1 && !isNilIdent(cc.List[0]) {
					cs.vars[o] = fv.unboxAs(v, o.Type())
					if _, isPtr := o.Type().Underlying().(*types.Pointer); isPtr {
						cs.Assume(Not(App(SBool, "=", v, Null)))
					}
				} else {
					cs.vars[o] = v
				}
			}
		}
		outs = append(outs, fv.execCaseBody(cs, env, cc.Body)...)
		notPrev = append(notPrev, Not(cond))
	}
	ds := st.Clone()
	for _, n := range notPrev {
		ds.Assume(n)
	}
	if deflt != nil {
		if bindName != nil {
			if o := env.info.Implicits[deflt]; o != nil {
				ds.vars[o] = v
			}
		}
		outs = append(outs, fv.execCaseBody(ds, env, deflt.Body)...)
	} else {
		outs = append(outs, Outcome{st: ds, kind: okNormal})
	}
	return fv.mergeNormals(outs)
}

// ---- loops ----

// writeSet collects the variables, heap keys and ghosts a statement may modify (syntactically).
type writeSet struct {
	vars    map[types.Object]bool
	whole   map[types.Object]bool // assigned as a whole (not only element-wise)
	heapAll bool
	heap    map[string]bool
	yields  bool
	// heapBases[key]: the (simple) base expressions through which key is written; nil entry = unknown bases
	heapBases map[string][]ast.Expr
	heapUnk   map[string]bool
	// what every heapAll source of this write set promises to preserve (empty prefix: nothing)
	presSet    bool
	presPrefix string
	presExcept []string
}

// havocAllWith records a source of arbitrary heap effects that preserves the fields pfx* minus exc.
func (ws *writeSet) havocAllWith(pfx string, exc []string) {
	ws.heapAll = true
	if !ws.presSet {
		ws.presSet, ws.presPrefix, ws.presExcept = true, pfx, append([]string(nil), exc...)
		return
	}
	if ws.presPrefix != pfx {
		ws.presPrefix, ws.presExcept = "", nil
		return
	}
	// union of exceptions
	for _, e := range exc {
		found := false
		for _, e2 := range ws.presExcept {
			if e2 == e {
				found = true
			}
		}
		if !found {
			ws.presExcept = append(ws.presExcept, e)
		}
	}
}

func (ws *writeSet) addBase(key string, base ast.Expr) {
	if ws.heapBases == nil {
		ws.heapBases = map[string][]ast.Expr{}
		ws.heapUnk = map[string]bool{}
	}
	if base == nil {
		ws.heapUnk[key] = true
		return
	}
	ws.heapBases[key] = append(ws.heapBases[key], base)
}

func (fv *FuncVerifier) collectWrites(env *Env, n ast.Node, ws *writeSet, depth int) {
	if n == nil || depth > 5 {
		return
	}
	info := env.info
	var lhs0 func(e ast.Expr, viaIndex bool)
	lhs := func(e ast.Expr) { lhs0(e, false) }
	lhs0 = func(e ast.Expr, viaIndex bool) {
		switch x := ast.Unparen(e).(type) {
		case *ast.Ident:
			if o := info.ObjectOf(x); o != nil {
				if v, ok := o.(*types.Var); ok && v.Pkg() != nil && v.Parent() == v.Pkg().Scope() {
					ws.heap[fv.globalKey(o)] = true
				} else {
					ws.vars[o] = true
					if !viaIndex {
						if ws.whole == nil {
							ws.whole = map[types.Object]bool{}
						}
						ws.whole[o] = true
					}
				}
			}
		case *ast.IndexExpr:
			lhs0(x.X, true)
		case *ast.SelectorExpr:
			if sel, ok := info.Selections[x]; ok {
				bt := info.TypeOf(x.X)
				path := sel.Index()
				ct := bt
				for _, idx := range path[:len(path)-1] {
					var stt *types.Struct
					if p, ok := ct.Underlying().(*types.Pointer); ok {
						stt, _ = p.Elem().Underlying().(*types.Struct)
					} else {
						stt, _ = ct.Underlying().(*types.Struct)
					}
					if stt == nil {
						ws.heapAll = true
						return
					}
					ct = stt.Field(idx).Type()
				}
				if _, isPtr := ct.Underlying().(*types.Pointer); isPtr {
					key := fieldKey(ct, sel.Obj().Name())
					ws.heap[key] = true
					if len(path) == 1 {
						ws.addBase(key, x.X)
					} else {
						ws.addBase(key, nil)
					}
				} else {
					lhs(x.X)
				}
			} else if o := info.ObjectOf(x.Sel); o != nil {
				ws.heap[fv.globalKey(o)] = true
			}
		case *ast.StarExpr:
			t := info.TypeOf(e)
			s := fv.sortOf(t)
			if fv.w.IsStruct(s) {
				ws.heapAll = true
			} else {
				ws.heap["$deref:"+string(s)] = true
			}
		}
	}
	ast.Inspect(n, func(nd ast.Node) bool {
		switch x := nd.(type) {
		case *ast.AssignStmt:
			for _, l := range x.Lhs {
				lhs(l)
			}
		case *ast.IncDecStmt:
			lhs(x.X)
		case *ast.RangeStmt:
			if x.Key != nil {
				lhs(x.Key)
			}
			if x.Value != nil {
				lhs(x.Value)
			}
		case *ast.DeclStmt:
			if gd, ok := x.Decl.(*ast.GenDecl); ok {
				for _, sp := range gd.Specs {
					if vs, ok := sp.(*ast.ValueSpec); ok {
						for _, nm := range vs.Names {
							lhs(nm)
						}
					}
				}
			}
		case *ast.CallExpr:
			fv.callWrites(env, x, ws, depth)
		}
		return true
	})
}

// callWrites over-approximates the effects of a call for loop havoc.
func (fv *FuncVerifier) callWrites(env *Env, call *ast.CallExpr, ws *writeSet, depth int) {
	info := env.info
	fun := ast.Unparen(call.Fun)
	if tv, ok := info.Types[fun]; ok && tv.IsType() {
		return
	}
	if id, ok := fun.(*ast.Ident); ok {
		if b, ok := info.ObjectOf(id).(*types.Builtin); ok {
			if b.Name() == "delete" || b.Name() == "copy" {
				if len(call.Args) > 0 {
					fake := &ast.AssignStmt{Lhs: []ast.Expr{call.Args[0]}}
					fv.collectWrites(env, fake, ws, depth+1)
				}
			}
			return
		}
		if o := info.ObjectOf(id); o != nil {
			if v, ok := o.(*types.Var); ok {
				if fv.isYieldParam(v) {
					ws.yields = true
					return
				}
				// local closure: its body's writes
				if lit := fv.closureLits[v]; lit != nil {
					fv.collectWrites(env, lit.Body, ws, depth+1)
					return
				}
			}
		}
	}
	{
		var vobj types.Object
		switch f := fun.(type) {
		case *ast.Ident:
			vobj = info.ObjectOf(f)
		case *ast.SelectorExpr:
			if _, isSel := info.Selections[f]; !isSel {
				vobj = info.ObjectOf(f.Sel)
			}
		}
		if vobj != nil {
			if vc := fv.prog.VarContracts[vobj]; vc != nil && vc.Has("pure", 0) {
				return
			}
		}
	}
	callee := calleeOf(info, call)
	if fn, ok := callee.(*types.Func); ok {
		if isSpecName(fn.Name()) {
			return
		}
		full := fn.FullName()
		if o := fn.Origin(); o != nil {
			full = o.FullName()
		}
		if eff, ok := externEffects[full]; ok {
			switch eff {
			case "none":
				return
			case "content":
				ws.heap[contentKey] = true
				if sel, ok := fun.(*ast.SelectorExpr); ok {
					if s2, ok := info.Selections[sel]; ok && s2.Kind() == types.MethodVal {
						ws.addBase(contentKey, sel.X)
						return
					}
				}
				if len(call.Args) > 0 {
					ws.addBase(contentKey, call.Args[0])
				} else {
					ws.addBase(contentKey, nil)
				}
				return
			case "fx":
				return
			case "closure":
				for _, a := range call.Args {
					if lit, ok := ast.Unparen(a).(*ast.FuncLit); ok {
						fv.collectWrites(env, lit.Body, ws, depth+1)
					}
				}
				return
			case "syncmap":
				for _, k := range []string{"$syncmap:keys", "$syncmap:vals"} {
					ws.heap[k] = true
					if sel, ok := fun.(*ast.SelectorExpr); ok {
						ws.addBase(k, sel.X)
					} else {
						ws.addBase(k, nil)
					}
				}
				return
			case "scanner":
				ws.heap["$scan:pos"] = true
				if sel, ok := fun.(*ast.SelectorExpr); ok {
					ws.addBase("$scan:pos", sel.X)
				} else {
					ws.addBase("$scan:pos", nil)
				}
				return
			}
		}
		if _, ok := externs[full]; ok {
			if eff, ok := externEffects[full]; ok && eff == "all" {
				ws.heapAll = true
			}
			if _, has := externEffects[full]; !has {
				// handlers without declared effects are pure
			}
			return
		}
		fiW, okW := fv.prog.ByObj[fn.Origin()]
		if !okW {
			// interface method with a trusted wrapper contract (iface_<Iface>_<Method>)
			if wfi := fv.ifaceWrapper(fn); wfi != nil {
				fiW, okW = wfi, true
			}
		}
		if fi, ok := fiW, okW; ok {
			c := fi.Contr
			if c != nil && c.Has("pure", 0) {
				return
			}
			if c == nil && fv.inlinable(fi) && depth < 4 {
				// executed inline at the call site: it writes what its body writes; heap writes through the helper's
				// receiver / parameters are writes through the corresponding argument expressions of the call
				sub := &writeSet{vars: map[types.Object]bool{}, heap: map[string]bool{}}
				cinfo := fi.Pkg.TypesInfo
				fv.collectWrites(&Env{info: cinfo}, fi.Decl.Body, sub, depth+1)
				actual := map[types.Object]ast.Expr{}
				if fi.Decl.Recv != nil {
					for _, f := range fi.Decl.Recv.List {
						for _, n := range f.Names {
							if sel, ok := ast.Unparen(call.Fun).(*ast.SelectorExpr); ok {
								actual[cinfo.Defs[n]] = sel.X
							}
						}
					}
				}
				pi := 0
				for _, f := range fi.Decl.Type.Params.List {
					for _, n := range f.Names {
						if pi < len(call.Args) {
							actual[cinfo.Defs[n]] = call.Args[pi]
						}
						pi++
					}
					if len(f.Names) == 0 {
						pi++
					}
				}
				if sub.heapAll {
					ws.havocAllWith(sub.presPrefix, sub.presExcept)
				}
				if sub.yields {
					ws.yields = true
				}
				for k := range sub.heap {
					ws.heap[k] = true
					if sub.heapUnk[k] || len(sub.heapBases[k]) == 0 {
						ws.addBase(k, nil)
					}
					for _, b := range sub.heapBases[k] {
						var mapped ast.Expr
						if id, ok := ast.Unparen(b).(*ast.Ident); ok {
							if a, ok := actual[cinfo.ObjectOf(id)]; ok && !sub.vars[cinfo.ObjectOf(id)] {
								mapped = a
							}
						}
						ws.addBase(k, mapped)
					}
				}
				fv.mapArgWrites(env, call, ws, depth)
				// element writes through a slice parameter are writes to the caller's slice
				for po, ae := range actual {
					if po == nil || !sub.vars[po] {
						continue
					}
					if _, isSl := po.Type().Underlying().(*types.Slice); isSl && isLvalue(ae) {
						fake := &ast.AssignStmt{Lhs: []ast.Expr{ae}}
						fv.collectWrites(env, fake, ws, depth+1)
					}
				}
				return
			}
			if c != nil && c.Has("assigns", 0) {
				for _, cl := range c.Get("assigns", 0, 0) {
					for _, tgt := range splitTopLevel(cl.Text, ',') {
						tgt = strings.TrimSpace(tgt)
						if tgt == "*" {
							pfx, exc := preservesOf(c)
							ws.havocAllWith(pfx, exc)
							fv.mapArgWrites(env, call, ws, depth)
							continue
						}
						if tgt == "" || tgt == "nothing" {
							continue
						}
						if strings.HasPrefix(tgt, "content(") {
							ws.heap[contentKey] = true
							ws.addBase(contentKey, nil)
							continue
						}
						if strings.HasPrefix(tgt, "abs(") && strings.HasSuffix(tgt, ")") {
							if k := absKey(fv.pathType(fi, tgt[len("abs("):len(tgt)-1])); k != "" {
								ws.heap[k] = true
								pth := strings.TrimSpace(tgt[len("abs(") : len(tgt)-1])
								var base ast.Expr
								if !strings.Contains(pth, ".") {
									if strings.Contains(fi.Key, ".iface_") && fi.Decl.Type.Params.NumFields() > 0 && len(fi.Decl.Type.Params.List[0].Names) > 0 && fi.Decl.Type.Params.List[0].Names[0].Name == pth {
										// wrapper of an interface method: its first parameter is the receiver of the real call
										if sel, ok := ast.Unparen(call.Fun).(*ast.SelectorExpr); ok {
											base = sel.X
										}
									} else {
										base = fv.argExprByName(fi, call, pth)
									}
								}
								ws.addBase(k, base)
							} else {
								ws.heapAll = true
							}
							continue
						}
						parts := strings.Split(tgt, ".")
						if len(parts) == 1 {
							// argument updated
							if ae := fv.argExprByName(fi, call, parts[0]); ae != nil {
								fake := &ast.AssignStmt{Lhs: []ast.Expr{ae}}
								fv.collectWrites(env, fake, ws, depth+1)
							}
							continue
						}
						// field key by walking types
						if key := fv.assignsFieldKey(fi, parts); key != "" {
							ws.heap[key] = true
							if ae := fv.argExprByName(fi, call, parts[0]); ae != nil && len(parts) == 2 {
								ws.addBase(key, ae)
							} else {
								ws.addBase(key, nil)
							}
						} else {
							ws.heapAll = true
						}
					}
				}
				return
			}
			ws.heapAll = true
			fv.mapArgWrites(env, call, ws, depth)
			return
		}
		pkgPath := ""
		if fn.Pkg() != nil {
			pkgPath = fn.Pkg().Path()
		}
		switch externPolicy(pkgPath, full) {
		case "pure", "drop":
			return
		}
		if strings.HasPrefix(pkgPath, repoModule) {
			if ic := fv.prog.IfaceContracts[ifaceKey(fn)]; ic != nil && ic.Has("pure", 0) {
				return
			}
			if ic := fv.prog.IfaceContracts[ifaceKey(fn)]; ic != nil && (ic.Has("calllog", 0) || ic.Has("preserves", 0)) {
				pfx, exc := preservesOf(ic)
				ws.havocAllWith(pfx, exc)
				fv.mapArgWrites(env, call, ws, depth)
				return
			}
		}
	}
	// call through a local variable bound to a literal with a `modular` contract: it writes what that literal writes
	if id, ok := ast.Unparen(call.Fun).(*ast.Ident); ok {
		if lit := fv.modularLitOf(info.ObjectOf(id)); lit != nil {
			if fv.inWrites == nil {
				fv.inWrites = map[*ast.FuncLit]bool{}
			}
			if !fv.inWrites[lit] {
				fv.inWrites[lit] = true
				fv.collectWrites(&Env{info: fv.fn.Pkg.TypesInfo}, lit.Body, ws, depth+1)
				delete(fv.inWrites, lit)
			}
			return
		}
	}
	if _, isFunc := callee.(*types.Func); !isFunc && fv.fn.Contr != nil && fv.fn.Contr.Has("fnvalue-calllog", 0) {
		pfx, exc := preservesOf(fv.fn.Contr)
		ws.havocAllWith(pfx, exc)
	} else {
		if os.Getenv("GOVC_DEBUG") != "" {
			fmt.Fprintln(os.Stderr, "DEBUG non-preserving call in write set:", exprString(call.Fun), fv.pos(call.Pos()))
		}
		ws.havocAllWith("", nil)
	}
	fv.mapArgWrites(env, call, ws, depth)
	for _, a := range call.Args {
		if lit, ok := ast.Unparen(a).(*ast.FuncLit); ok {
			fv.collectWrites(env, lit.Body, ws, depth+1)
		}
	}
}

// ifaceWrapper returns the trusted wrapper function iface_<Iface>_<Method> carrying the contract of an interface
// method of /repo, if there is one.
func (fv *FuncVerifier) ifaceWrapper(fn *types.Func) *FuncInfo {
	if fn.Pkg() == nil || !strings.HasPrefix(fn.Pkg().Path(), repoModule) {
		return nil
	}
	k := ifaceKey(fn)
	parts := strings.Split(k, ".")
	if k == "" || len(parts) < 3 {
		return nil
	}
	wkey := strings.Join(parts[:len(parts)-2], ".") + ".iface_" + parts[len(parts)-2] + "_" + parts[len(parts)-1]
	if wfi := fv.prog.Funcs[wkey]; wfi != nil && wfi.Contr != nil && wfi.Obj != nil {
		return wfi
	}
	return nil
}

// pathType: static type of a parameter path p.f.g of function fi.
func (fv *FuncVerifier) pathType(fi *FuncInfo, path string) types.Type {
	parts := strings.Split(strings.TrimSpace(path), ".")
	var ct types.Type
	info := fi.Pkg.TypesInfo
	find := func(fl *ast.FieldList) {
		if fl == nil {
			return
		}
		for _, f := range fl.List {
			for _, n := range f.Names {
				if n.Name == parts[0] {
					if o := info.Defs[n]; o != nil {
						ct = o.Type()
					}
				}
			}
		}
	}
	find(fi.Decl.Recv)
	find(fi.Decl.Type.Params)
	for k := 1; k < len(parts) && ct != nil; k++ {
		p, ok := ct.Underlying().(*types.Pointer)
		if !ok {
			return nil
		}
		stt, _ := p.Elem().Underlying().(*types.Struct)
		var next types.Type
		for j := 0; stt != nil && j < stt.NumFields(); j++ {
			if stt.Field(j).Name() == parts[k] {
				next = stt.Field(j).Type()
			}
		}
		ct = next
	}
	return ct
}

func (fv *FuncVerifier) mapArgWrites(env *Env, call *ast.CallExpr, ws *writeSet, depth int) {
	exprs := append([]ast.Expr(nil), call.Args...)
	if sel, ok := ast.Unparen(call.Fun).(*ast.SelectorExpr); ok {
		if s, ok := env.info.Selections[sel]; ok && s.Kind() == types.MethodVal {
			exprs = append(exprs, sel.X)
		}
	}
	for _, a := range exprs {
		t := env.info.TypeOf(a)
		if t == nil {
			continue
		}
		if _, ok := t.Underlying().(*types.Map); ok && isLvalue(a) {
			fake := &ast.AssignStmt{Lhs: []ast.Expr{a}}
			fv.collectWrites(env, fake, ws, depth+1)
		}
	}
}

func (fv *FuncVerifier) argExprByName(fi *FuncInfo, call *ast.CallExpr, name string) ast.Expr {
	if fi.Decl.Recv != nil {
		for _, f := range fi.Decl.Recv.List {
			for _, n := range f.Names {
				if n.Name == name {
					if sel, ok := ast.Unparen(call.Fun).(*ast.SelectorExpr); ok {
						return sel.X
					}
				}
			}
		}
	}
	i := 0
	for _, f := range fi.Decl.Type.Params.List {
		for _, n := range f.Names {
			if n.Name == name && i < len(call.Args) {
				return call.Args[i]
			}
			i++
		}
	}
	return nil
}

func (fv *FuncVerifier) assignsFieldKey(fi *FuncInfo, parts []string) string {
	info := fi.Pkg.TypesInfo
	var ct types.Type
	find := func(fl *ast.FieldList) {
		if fl == nil {
			return
		}
		for _, f := range fl.List {
			for _, n := range f.Names {
				if n.Name == parts[0] {
					if o := info.Defs[n]; o != nil {
						ct = o.Type()
					}
				}
			}
		}
	}
	find(fi.Decl.Recv)
	find(fi.Decl.Type.Params)
	if ct == nil {
		return ""
	}
	for k := 1; k < len(parts); k++ {
		p, ok := ct.Underlying().(*types.Pointer)
		if !ok {
			return ""
		}
		stt, _ := p.Elem().Underlying().(*types.Struct)
		if stt == nil {
			return ""
		}
		var fld *types.Var
		for j := 0; j < stt.NumFields(); j++ {
			if stt.Field(j).Name() == parts[k] {
				fld = stt.Field(j)
			}
		}
		if fld == nil {
			return ""
		}
		if k == len(parts)-1 {
			return fieldKey(ct, fld.Name())
		}
		ct = fld.Type()
	}
	return ""
}

func (fv *FuncVerifier) havocWrites(st *State, env *Env, n ast.Node) {
	ws := &writeSet{vars: map[types.Object]bool{}, heap: map[string]bool{}}
	fv.collectWrites(env, n, ws, 0)
	fv.applyHavoc(st, ws)
}

func (fv *FuncVerifier) applyHavoc(st *State, ws *writeSet) {
	for o := range ws.vars {
		if old, ok := st.vars[o]; ok {
			nv := fv.fresh(o.Name(), old.Sort)
			st.Assume(fv.typeInv(nv, o.Type()))
			if !ws.whole[o] {
				// only element-wise updates: a map stays (non-)nil, a slice keeps its length
				switch {
				case fv.w.IsMap(old.Sort):
					st.Assume(App(SBool, "=", fv.w.MapIsNil(nv), fv.w.MapIsNil(old)))
				case fv.w.IsSeq(old.Sort):
					st.Assume(App(SBool, "=", fv.w.SeqLen(nv), fv.w.SeqLen(old)))
				}
			}
			st.vars[o] = nv
		}
	}
	if ws.heapAll {
		if ws.presSet {
			fv.havocAllExcept(st, ws.presPrefix, ws.presExcept)
		} else {
			fv.havocAll(st)
		}
	}
	// fields the statement writes itself are forgotten even for objects that calls cannot touch
	for k := range ws.heap {
		delete(st.heap, k)
		fv.nfresh++
		st.hmark[k] = fv.nfresh
	}
	if ws.yields {
		for _, g := range []string{"out", "out2", "outText", "stopped"} {
			if old, ok := st.ghost[g]; ok {
				st.ghost[g] = fv.fresh("g_"+g, old.Sort)
			}
		}
	}
}

type loopCtx struct {
	ord     int
	stmt    ast.Stmt
	names   map[string]Term // ghost names visible in invariants (it<k>, ks<k>, ys<k> ...)
	entry   *State
	bodyPos token.Pos
}

// loopInvariants evaluates the user invariants of loop lc in state st.
func (fv *FuncVerifier) loopInvariants(st *State, lc *loopCtx) []struct {
	cl *Clause
	t  Term
} {
	var out []struct {
		cl *Clause
		t  Term
	}
	for _, cl := range fv.fn.Contr.Get("invariant", lc.ord, 0) {
		t := fv.evalClause(st, cl, lc.bodyPos, lc.names, lc.entry)
		out = append(out, struct {
			cl *Clause
			t  Term
		}{cl, t})
	}
	return out
}

// runLoop is the generic cut-point treatment. havocGhost gives engine-managed ghosts fresh values at the loop
// head; setNames publishes ghost names for invariants (and binds range variables); facts returns engine-supplied
// facts about the ghosts; guard/body are the loop condition and one iteration (including the post statement).
func (fv *FuncVerifier) runLoopR(st *State, env *Env, lc *loopCtx, label string, writes *writeSet, havocGhost func(st *State),
	setNames func(st *State), guard func(st *State) Term, body func(st *State) []Outcome, facts func(st *State) []Term) []Outcome {

	lc.entry = st.Clone()
	setNames(st)
	m0 := fv.nfresh // every symbol created from here on is specific to one iteration
	// 1. invariants hold on entry
	for _, iv := range fv.loopInvariants(st, lc) {
		fv.obligeNamedAt(st, "F", fmt.Sprintf("inv[loop%d,%d].entry", lc.ord, iv.cl.Ord), iv.t, lc.bodyPos, "loop invariant holds on entry: "+iv.cl.Text)
	}
	// 2. arbitrary iteration
	head := st.Clone()
	fv.applyHavoc(head, writes)
	fv.loopHeapFrame(st, head, env, writes)
	havocGhost(head)
	setNames(head)
	for _, f := range facts(head) {
		head.Assume(f)
	}
	for _, iv := range fv.loopInvariants(head, lc) {
		head.Assume(iv.t)
	}
	// `loop k assume E`: an assumption about values the loop works on (listed in evidence), not checked
	for _, cl := range fv.fn.Contr.Get("assume", lc.ord, 0) {
		head.Assume(fv.evalClause(head, cl, lc.bodyPos, lc.names, lc.entry))
	}
	fv.applyHints(head, lc)
	var dec0 []Term
	decs := fv.fn.Contr.Get("decreases", lc.ord, 0)
	for _, cl := range decs {
		dec0 = append(dec0, fv.evalClause(head, cl, lc.bodyPos, lc.names, lc.entry))
	}
	g := guard(head)
	// engine-derived iteration summary for loops that can be left from inside the body (see autoIterInvariant)
	if inv, ok := fv.autoIterInvariant(head, g, lc, body, m0); ok {
		head.Assume(inv)
	}
	var outs []Outcome
	// exit branch
	exit := head.Clone()
	exit.Assume(Not(g))
	outs = append(outs, Outcome{st: exit, kind: okNormal})
	// this loop has run to its normal exit (ghost done<k>, see `loop j ensures`)
	exit.ghost[fmt.Sprintf("done%d", lc.ord)] = True
	// body branch
	bst := head.Clone()
	bst.Assume(g)
	// at the start of an iteration none of the loops nested in this one has run yet
	iterEnsures := fv.fn.Contr.Get("ensures", lc.ord, 0)
	if len(iterEnsures) > 0 {
		for s2, ord2 := range fv.loops {
			if s2.Pos() > lc.stmt.Pos() && s2.End() <= lc.stmt.End() {
				bst.ghost[fmt.Sprintf("done%d", ord2)] = False
			}
		}
	}
	iterStart := bst.Clone()
	if len(fv.fn.Contr.Get("invariant", lc.ord, 0)) > 0 {
		fv.obls = append(fv.obls, &Obligation{Func: fv.fn.Key, Class: "V", Kind: "loop-reachable", Site: lc.bodyPos, Pos: fv.pos(lc.bodyPos),
			Assume: append([]Term(nil), bst.pc...), Goal: False, Desc: "loop body reachable under its invariants (vacuity guard)", consts: fv.consts, Cover: true,
			Name: fmt.Sprintf("%s#V.loop-reachable[loop%d]", fv.fn.Key, lc.ord)})
	}
	for _, o := range body(bst) {
		switch {
		case o.kind == okNormal || (o.kind == okContinue && (o.label == "" || o.label == label)):
			setNames(o.st)
			fv.applyHints(o.st, lc)
			for _, iv := range fv.loopInvariants(o.st, lc) {
				fv.obligeNamedAt(o.st, "F", fmt.Sprintf("inv[loop%d,%d].preserved", lc.ord, iv.cl.Ord), iv.t, lc.bodyPos, "loop invariant preserved: "+iv.cl.Text)
			}
			// `loop k ensures E`: what ONE complete iteration establishes (entry() = the start of this iteration); E is
			// read at the end of the body, so it may mention variables the body declares and the ghosts done<j> ("the
			// nested loop j ran to its normal exit during this iteration")
			for _, cl := range iterEnsures {
				endPos := lc.bodyPos
				switch b := lc.stmt.(type) {
				case *ast.ForStmt:
					endPos = b.Body.Rbrace
				case *ast.RangeStmt:
					endPos = b.Body.Rbrace
				}
				nm := map[string]Term{}
				for k, v := range lc.names {
					nm[k] = v
				}
				for k, v := range o.st.ghost {
					if strings.HasPrefix(k, "done") {
						nm[k] = v
					}
				}
				t := fv.evalClause(o.st, cl, endPos, nm, iterStart)
				// always recorded (also when it folds to `true`): the baseline must know the clause exists
				fv.obls = append(fv.obls, &Obligation{Func: fv.fn.Key, Class: "F", Kind: "iter-ensures", Site: lc.bodyPos, Pos: fv.pos(lc.bodyPos),
					Assume: append([]Term(nil), o.st.pc...), Goal: t, Desc: "every complete iteration establishes: " + cl.Text, consts: fv.consts,
					Name: fmt.Sprintf("%s#F.iter-ensures[loop%d,%d]", fv.fn.Key, lc.ord, cl.Ord)})
			}
			for i, cl := range decs {
				d1 := fv.evalClause(o.st, cl, lc.bodyPos, lc.names, lc.entry)
				fv.obligeNamedAt(o.st, "T", fmt.Sprintf("decreases[loop%d,%d]", lc.ord, cl.Ord), And(Lt(d1, dec0[i]), Le(IntLit(0), dec0[i])), lc.bodyPos, "loop variant decreases and is bounded below: "+cl.Text)
			}
		case o.kind == okBreak && (o.label == "" || o.label == label):
			outs = append(outs, Outcome{st: o.st, kind: okNormal})
		default:
			outs = append(outs, o)
		}
	}
	// restore names for code after the loop (exit state)
	setNames(exit)
	return fv.mergeNormals(outs)
}

// loopHeapFrame: a heap field written in the loop body only through loop-invariant base variables keeps its
// value at every other object (engine-supplied frame fact for the havocked loop head).
func (fv *FuncVerifier) loopHeapFrame(entry, head *State, env *Env, ws *writeSet) {
	if ws.heapAll {
		return
	}
	for key := range ws.heap {
		if ws.heapUnk[key] || len(ws.heapBases[key]) == 0 {
			continue
		}
		h0, ok := entry.heap[key]
		if !ok {
			continue // never read before the loop: nothing to relate to
		}
		var excl []Term
		okAll := true
		for _, b := range ws.heapBases[key] {
			id, isId := ast.Unparen(b).(*ast.Ident)
			if sel, isSel := ast.Unparen(b).(*ast.SelectorExpr); isSel && !isId {
				// base of the form x.f with x a variable the loop does not assign and f a field the loop does not write:
				// the object is the one x.f refers to on loop entry
				if xid, ok := ast.Unparen(sel.X).(*ast.Ident); ok {
					if o := env.info.ObjectOf(xid); o != nil && !ws.vars[o] {
						if s, ok := env.info.Selections[sel]; ok && s.Kind() == types.FieldVal && len(s.Index()) == 1 {
							fk := fieldKey(env.info.TypeOf(sel.X), s.Obj().Name())
							xv, has := head.vars[o]
							if !has && env.binds != nil {
								xv, has = env.binds[o]
							}
							if has && xv.Sort == SRef && !ws.heap[fk] && fv.sortOf(s.Obj().Type()) == SRef {
								v := fv.readField(entry, xv, fk, SRef)
								excl = append(excl, Not(App(SBool, "=", Term{"r$", SRef}, v)))
								continue
							}
						}
					}
				}
			}
			if !isId {
				okAll = false
				break
			}
			o := env.info.ObjectOf(id)
			if o == nil || ws.vars[o] {
				okAll = false
				break
			}
			v, has := head.vars[o]
			if !has {
				if env.binds != nil {
					v, has = env.binds[o]
				}
			}
			if !has || v.Sort != SRef {
				okAll = false
				break
			}
			excl = append(excl, Not(App(SBool, "=", Term{"r$", SRef}, v)))
		}
		if !okAll {
			continue
		}
		h1 := fv.heapGet(head, key, h0.Sort)
		head.Assume(T(SBool, "(forall ((r$ Ref)) (! (=> %s (= (select %s r$) (select %s r$))) :pattern ((select %s r$))))", And(excl...).S, h1.S, h0.S, h1.S))
	}
}

// applyHints makes the terms of `loop k hint e1, e2` clauses available to the solver as ground terms
// (triggers one unfolding of recursive spec functions at those arguments). A hint adds no assumption.
func (fv *FuncVerifier) applyHints(st *State, lc *loopCtx) {
	for _, cl := range fv.fn.Contr.Get("hint", lc.ord, 0) {
		t := fv.evalClause(st, cl, lc.bodyPos, lc.names, lc.entry)
		name := fv.w.UFun("hint_"+sanitize(string(t.Sort)), []Sort{t.Sort}, SBool, "")
		st.Assume(Or(App(SBool, name, t), Not(App(SBool, name, t))))
	}
}

func (fv *FuncVerifier) obligeNamedAt(st *State, class, name string, goal Term, site token.Pos, desc string) {
	if goal.S == "true" {
		return
	}
	fv.obls = append(fv.obls, &Obligation{Func: fv.fn.Key, Class: class, Kind: name, Site: site, Pos: fv.pos(site),
		Assume: append([]Term(nil), st.pc...), Goal: goal, Desc: desc, consts: fv.consts, Name: fv.fn.Key + "#" + class + "." + name})
}


func (fv *FuncVerifier) loopWrites(env *Env, nodes ...ast.Node) *writeSet {
	ws := &writeSet{vars: map[types.Object]bool{}, heap: map[string]bool{}}
	for _, n := range nodes {
		if n != nil && !isNilNode(n) {
			fv.collectWrites(env, n, ws, 0)
		}
	}
	return ws
}

func isNilNode(n ast.Node) bool {
	switch x := n.(type) {
	case *ast.BlockStmt:
		return x == nil
	case ast.Stmt:
		return x == nil
	case ast.Expr:
		return x == nil
	}
	return n == nil
}

func (fv *FuncVerifier) execFor(st *State, env *Env, x *ast.ForStmt, label string) []Outcome {
	if x.Init != nil {
		outs := fv.execStmt(st, env, x.Init)
		if len(outs) != 1 || outs[0].kind != okNormal {
			return outs
		}
		st = outs[0].st
	}
	lc := &loopCtx{ord: fv.loops[x], stmt: x, names: map[string]Term{}, bodyPos: x.Body.Lbrace + 1}
	var nodes []ast.Node
	nodes = append(nodes, x.Body)
	if x.Post != nil {
		nodes = append(nodes, x.Post)
	}
	if x.Cond != nil {
		nodes = append(nodes, x.Cond)
	}
	ws := fv.loopWrites(env, nodes...)
	// canonical index loop over a slice the body does not change, with an index the body does not assign: the ghosts
	// it<k> (== i) and xs<k> (== S) of the equivalent range loop, and the facts 0 <= i <= len(S)
	var idxObj types.Object
	var idxSeq Term
	if iobj, sx := canonicalIndexLoop(env.info, x); iobj != nil && lc.ord > 0 {
		bodyWs := fv.loopWrites(env, x.Body)
		seqStable := true
		if id, ok := ast.Unparen(sx).(*ast.Ident); ok {
			if o := env.info.ObjectOf(id); o == nil || bodyWs.vars[o] {
				seqStable = false
			}
		} else if sel, ok := ast.Unparen(sx).(*ast.SelectorExpr); ok {
			// x.f with x a variable the body does not assign and f a field the body does not write
			seqStable = false
			if xid, ok := ast.Unparen(sel.X).(*ast.Ident); ok && !bodyWs.heapAll {
				if o := env.info.ObjectOf(xid); o != nil && !bodyWs.vars[o] {
					if s, ok := env.info.Selections[sel]; ok && s.Kind() == types.FieldVal && len(s.Index()) == 1 {
						if !bodyWs.heap[fieldKey(env.info.TypeOf(sel.X), s.Obj().Name())] {
							seqStable = true
						}
					}
				}
			}
		} else {
			seqStable = false
		}
		if !bodyWs.vars[iobj] && seqStable {
			if t := fv.typeOf(env, sx); t != nil {
				if _, isSl := t.Underlying().(*types.Slice); isSl {
					idxObj = iobj
					idxSeq = fv.eval(st, env, sx)
				}
			}
		}
	}
	// monotone counter `for i := e0; ...; i++` (or i--) whose body does not assign i: i never drops below (rises
	// above) its initial value - an engine-supplied fact, like the range facts of the canonical index loop
	var ctrObj types.Object
	var ctrInit Term
	ctrUp := true
	if as, ok := x.Init.(*ast.AssignStmt); ok && as.Tok == token.DEFINE && len(as.Lhs) == 1 && len(as.Rhs) == 1 {
		if id, ok := as.Lhs[0].(*ast.Ident); ok {
			if o := env.info.Defs[id]; o != nil {
				if inc, ok := x.Post.(*ast.IncDecStmt); ok {
					if pid, ok := ast.Unparen(inc.X).(*ast.Ident); ok && env.info.ObjectOf(pid) == o {
						if b, isB := o.Type().Underlying().(*types.Basic); isB && b.Info()&types.IsInteger != 0 {
							if bw := fv.loopWrites(env, x.Body); !bw.vars[o] {
								if v, has := st.vars[o]; has {
									ctrObj, ctrInit, ctrUp = o, v, inc.Tok == token.INC
								}
							}
						}
					}
				}
			}
		}
	}
	itName, xsName := fmt.Sprintf("it%d", lc.ord), fmt.Sprintf("xs%d", lc.ord)
	return fv.runLoopR(st, env, lc, label, ws,
		func(st *State) {},
		func(st *State) {
			if idxObj != nil {
				if v, ok := st.vars[idxObj]; ok {
					lc.names[itName] = v
					lc.names[xsName] = idxSeq
					// (visible to the clauses of nested loops too, like the ghosts of a range loop)
					st.ghost[itName] = v
					st.ghost[xsName] = idxSeq
				}
			}
		},
		func(st *State) Term {
			if x.Cond == nil {
				return True
			}
			return fv.eval(st, env, x.Cond)
		},
		func(st *State) []Outcome {
			outs := fv.execBlock(st, env, x.Body.List)
			if x.Post == nil {
				return outs
			}
			var res []Outcome
			for _, o := range outs {
				if o.kind == okNormal || (o.kind == okContinue && (o.label == "" || o.label == label)) {
					res = append(res, fv.execStmt(o.st, env, x.Post)...)
				} else {
					res = append(res, o)
				}
			}
			return res
		},
		func(st *State) []Term {
			var facts []Term
			if ctrObj != nil {
				if v, ok := st.vars[ctrObj]; ok {
					if ctrUp {
						facts = append(facts, Le(ctrInit, v))
					} else {
						facts = append(facts, Le(v, ctrInit))
					}
				}
			}
			if idxObj != nil {
				if v, ok := st.vars[idxObj]; ok {
					facts = append(facts, Le(IntLit(0), v), Le(v, fv.w.SeqLen(idxSeq)))
				}
			}
			return facts
		})
}

func (fv *FuncVerifier) execRange(st *State, env *Env, x *ast.RangeStmt, label string) []Outcome {
	w := fv.w
	ord := fv.loops[x]
	lc := &loopCtx{ord: ord, stmt: x, names: map[string]Term{}, bodyPos: x.Body.Lbrace + 1}
	xt := fv.typeOf(env, x.X)
	ws := fv.loopWrites(env, x.Body)
	itName := fmt.Sprintf("it%d", ord)
	keyObj := func(e ast.Expr) types.Object {
		if e == nil {
			return nil
		}
		id, ok := e.(*ast.Ident)
		if !ok || id.Name == "_" {
			return nil
		}
		return env.info.ObjectOf(id)
	}
	kobj, vobj := keyObj(x.Key), keyObj(x.Value)
	if kobj != nil {
		delete(ws.vars, kobj)
	}
	if vobj != nil {
		delete(ws.vars, vobj)
	}
	bindIter := func(st *State, o types.Object, v Term) {
		if o != nil {
			st.vars[o] = fv.coerce(v, fv.sortOf(o.Type()))
		}
	}
	var it Term // current iteration counter symbol (set per state via ghost)
	getIt := func(st *State) Term { return st.ghost[itName] }
	_ = it
	incr := func(outs []Outcome) []Outcome {
		for _, o := range outs {
			if o.kind == okNormal || (o.kind == okContinue && (o.label == "" || o.label == label)) {
				o.st.ghost[itName] = Add(getIt(o.st), IntLit(1))
			}
		}
		return outs
	}
	havocIt := func(st *State) {
		st.ghost[itName] = fv.fresh(itName, SInt)
	}
	switch u := xt.Underlying().(type) {
	case *types.Basic:
		if u.Info()&types.IsInteger != 0 { // for i := range n
			n := fv.eval(st, env, x.X)
			st.ghost[itName] = IntLit(0)
			return fv.runLoopR(st, env, lc, label, ws, havocIt,
				func(st *State) {
					lc.names[itName] = getIt(st)
					bindIter(st, kobj, getIt(st))
				},
				func(st *State) Term { return Lt(getIt(st), n) },
				func(st *State) []Outcome { return incr(fv.execBlock(st, env, x.Body.List)) },
				func(st *State) []Term { return []Term{Le(IntLit(0), getIt(st)), Or(Le(getIt(st), n), Lt(n, IntLit(0)))} })
		}
		if u.Info()&types.IsString != 0 {
			s := fv.eval(st, env, x.X)
			fv.strFuncs("runeat")
			offName := fmt.Sprintf("off%d", ord)
			st.ghost[itName] = IntLit(0)
			st.ghost[offName] = IntLit(0)
			runes := App(s.Sort, "str2runes", s)
			return fv.runLoopR(st, env, lc, label, ws,
				func(st *State) { havocIt(st); st.ghost[offName] = fv.fresh(offName, SInt) },
				func(st *State) {
					lc.names[itName] = getIt(st)
					lc.names[offName] = st.ghost[offName]
					bindIter(st, kobj, st.ghost[offName])
				},
				func(st *State) Term { return Lt(st.ghost[offName], w.SeqLen(s)) },
				func(st *State) []Outcome {
					off := st.ghost[offName]
					c := App(SInt, "runeat", s, off)
					wd := App(SInt, "runew", s, off)
					b := w.SeqAt(s, off)
					st.Assume(And(
						Implies(Lt(b, IntLit(128)), And(App(SBool, "=", c, b), App(SBool, "=", wd, IntLit(1)))),
						Implies(Ge(b, IntLit(128)), Ge(c, IntLit(128))),
						Le(IntLit(1), wd), Le(wd, IntLit(4)), Le(Add(off, wd), w.SeqLen(s)),
						Le(IntLit(0), c), Le(c, IntLit(0x10FFFF)),
						App(SBool, "=", c, w.SeqAt(runes, getIt(st))),
						Le(IntLit(0), b), Le(b, IntLit(255)),
						// continuation bytes of a multi-byte rune are >= 0x80
						Implies(Gt(wd, IntLit(1)), Ge(w.SeqAt(s, Add(off, IntLit(1))), IntLit(128))),
						Implies(Gt(wd, IntLit(2)), Ge(w.SeqAt(s, Add(off, IntLit(2))), IntLit(128))),
						Implies(Gt(wd, IntLit(3)), Ge(w.SeqAt(s, Add(off, IntLit(3))), IntLit(128))),
					))
					bindIter(st, kobj, off)
					bindIter(st, vobj, c)
					// one path per encoded width, the next offset being off+1 .. off+4 with a LITERAL increment:
					// arguments of recursive spec functions then normalise syntactically instead of relying on the
					// solver to propagate arithmetic equalities into the e-graph (a source of unstable proofs)
					var outs []Outcome
					for k := 1; k <= 4; k++ {
						sk := st.Clone()
						sk.Assume(App(SBool, "=", wd, IntLit(int64(k))))
						for _, o := range fv.execBlock(sk, env, x.Body.List) {
							if o.kind == okNormal || (o.kind == okContinue && (o.label == "" || o.label == label)) {
								o.st.ghost[offName] = Add(off, IntLit(int64(k)))
							}
							outs = append(outs, o)
						}
					}
					return incr(outs)
				},
				func(st *State) []Term {
					off := st.ghost[offName]
					return []Term{Le(IntLit(0), getIt(st)), Le(IntLit(0), off), Le(off, w.SeqLen(s)), Le(getIt(st), off),
						Le(getIt(st), w.SeqLen(runes)),
						App(SBool, "=", App(SBool, "=", off, w.SeqLen(s)), App(SBool, "=", getIt(st), w.SeqLen(runes)))}
				})
		}
	case *types.Slice, *types.Array:
		s := fv.eval(st, env, x.X)
		// a range over a LITERAL sequence of at most four elements (the packed variadic arguments of an inlined helper,
		// `for _, part := range parts` with parts = ["//go:", directive]) that carries no loop clause is executed
		// element by element instead of being cut at an invariant: nothing is lost to a havoc
		if elems, isLit := fv.litElems[s.S]; isLit && len(elems) <= 4 && fv.loopHasNoClauses(ord) {
			if id, ok := ast.Unparen(x.X).(*ast.Ident); !ok || !ws.vars[env.info.ObjectOf(id)] {
				cur := []*State{st}
				var outs []Outcome
				for i, e := range elems {
					var next []*State
					for _, c := range cur {
						bindIter(c, kobj, IntLit(int64(i)))
						bindIter(c, vobj, e)
						for _, o := range fv.execBlock(c, env, x.Body.List) {
							switch {
							case o.kind == okNormal || (o.kind == okContinue && (o.label == "" || o.label == label)):
								next = append(next, o.st)
							case o.kind == okBreak && (o.label == "" || o.label == label):
								outs = append(outs, Outcome{st: o.st, kind: okNormal})
							default:
								outs = append(outs, o)
							}
						}
					}
					cur = next
				}
				for _, c := range cur {
					outs = append(outs, Outcome{st: c, kind: okNormal})
				}
				return fv.mergeNormals(outs)
			}
		}
		st.ghost[itName] = IntLit(0)
		return fv.runLoopR(st, env, lc, label, ws, havocIt,
			func(st *State) {
				lc.names[itName] = getIt(st)
				lc.names[fmt.Sprintf("xs%d", ord)] = s
				bindIter(st, kobj, getIt(st))
			},
			func(st *State) Term { return Lt(getIt(st), w.SeqLen(s)) },
			func(st *State) []Outcome {
				bindIter(st, kobj, getIt(st))
				bindIter(st, vobj, w.SeqAt(s, getIt(st)))
				if vobj != nil {
					st.Assume(fv.typeInv(st.vars[vobj], vobj.Type()))
				}
				return incr(fv.execBlock(st, env, x.Body.List))
			},
			func(st *State) []Term { return []Term{Le(IntLit(0), getIt(st)), Le(getIt(st), w.SeqLen(s))} })
	case *types.Map:
		fv.nondet = append(fv.nondet, "range over a map (arbitrary order)")
		m := fv.eval(st, env, x.X)
		ksSort := w.SeqSort(w.mapKV[m.Sort][0])
		ks := fv.fresh(fmt.Sprintf("ks%d", ord), ksSort)
		kx := seqX(ksSort)
		ksort := w.mapKV[m.Sort][0]
		idx := fmt.Sprintf("idx!%d_%s", ord, sanitize(fv.fn.Key))
		w.UFun(idx, []Sort{ksort}, SInt, "")
		// ks is a duplicate-free enumeration of dom(m), in an ARBITRARY order
		st.Assume(T(SBool, "(forall ((a$ Int)) (! (=> (and (<= 0 a$) (< a$ (len_%[1]s %[2]s))) (and %[3]s (= (%[4]s (at_%[1]s %[2]s a$)) a$))) :pattern ((at_%[1]s %[2]s a$))))",
			kx, ks.S, w.MapHas(m, T(ksort, "(at_%s %s a$)", kx, ks.S)).S, idx))
		st.Assume(T(SBool, "(forall ((k$ %[1]s)) (! (=> %[2]s (and (<= 0 (%[3]s k$)) (< (%[3]s k$) (len_%[4]s %[5]s)) (= (at_%[4]s %[5]s (%[3]s k$)) k$))) :pattern (%[2]s) :pattern ((%[3]s k$))))",
			ksort, w.MapHas(m, Term{"k$", ksort}).S, idx, kx, ks.S))
		st.Assume(App(SBool, "=", w.SeqLen(ks), w.MapLen(m)))
		if ksort == "Seq_Int" {
			fv.sortedKeys(App("(Array Seq_Int Bool)", "dom_"+mapX(m.Sort), m))
			st.Assume(App(SBool, "enum_str", ks, App("(Array Seq_Int Bool)", "dom_"+mapX(m.Sort), m)))
		}
		st.ghost[itName] = IntLit(0)
		ksName := fmt.Sprintf("ks%d", ord)
		// writing to the ranged map inside the body is outside the subset
		return fv.runLoopR(st, env, lc, label, ws, havocIt,
			func(st *State) {
				lc.names[itName] = getIt(st)
				lc.names[ksName] = ks
			},
			func(st *State) Term { return Lt(getIt(st), w.SeqLen(ks)) },
			func(st *State) []Outcome {
				k := w.SeqAt(ks, getIt(st))
				bindIter(st, kobj, k)
				bindIter(st, vobj, w.MapGetRaw(m, k))
				st.Assume(w.MapHas(m, k))
				if mt, ok := xt.Underlying().(*types.Map); ok {
					// keys and values carry their static types
					st.Assume(fv.typeInv(k, mt.Key()))
					st.Assume(fv.typeInv(w.MapGetRaw(m, k), mt.Elem()))
				}
				fv.mapRangeDepth++
				outs := incr(fv.execBlock(st, env, x.Body.List))
				fv.mapRangeDepth--
				return outs
			},
			func(st *State) []Term { return []Term{Le(IntLit(0), getIt(st)), Le(getIt(st), w.SeqLen(ks))} })
	case *types.Signature:
		return fv.execRangeFunc(st, env, x, label, lc, ws, u, kobj, vobj)
	}
	fv.note("abstracted: range over %s at %s", xt, fv.pos(x.Pos()))
	fv.applyHavoc(st, ws)
	return normal(st)
}

// execRangeFunc: range over an iterator function value. The yielded values form a ghost sequence ys<k>
// (and ys<k>b for the second component) whose properties come from the iterator's contract.
func (fv *FuncVerifier) execRangeFunc(st *State, env *Env, x *ast.RangeStmt, label string, lc *loopCtx, ws *writeSet, sig *types.Signature, kobj, vobj types.Object) []Outcome {
	w := fv.w
	ord := lc.ord
	itName := fmt.Sprintf("it%d", ord)
	// element sorts from the yield signature
	ysig, _ := sig.Params().At(0).Type().Underlying().(*types.Signature)
	if ysig == nil {
		fv.note("abstracted: range over function at %s", fv.pos(x.Pos()))
		fv.applyHavoc(st, ws)
		return normal(st)
	}
	var ys, ys2 Term
	iter := fv.evalIterator(st, env, x.X)
	n := ysig.Params().Len()
	if n >= 1 {
		es := fv.sortOf(ysig.Params().At(0).Type())
		if iter.ys.S != "" {
			ys = iter.ys
		} else {
			ys = fv.yielded(iter.val, w.SeqSort(es))
		}
	}
	if n >= 2 {
		es := fv.sortOf(ysig.Params().At(1).Type())
		if iter.ys2.S != "" {
			ys2 = iter.ys2
		} else if iter.contract {
			ys2 = fv.yielded2(iter.val, w.SeqSort(es))
			st.Assume(App(SBool, "=", w.SeqLen(ys2), w.SeqLen(ys)))
		} else {
			ys2 = fv.fresh(fmt.Sprintf("ys%db", ord), w.SeqSort(es))
			st.Assume(App(SBool, "=", w.SeqLen(ys2), w.SeqLen(ys)))
		}
	}
	if !iter.pure {
		fv.orderLeak("an iterator with side effects is run", x.Pos())
		// iterating may have side effects of its own
		if iter.hasPres {
			ws.havocAllWith(iter.presPfx, iter.presExc)
		} else {
			ws.heapAll = true
		}
	}
	st.ghost[itName] = IntLit(0)
	getIt := func(st *State) Term { return st.ghost[itName] }
	lenYs := IntLit(0)
	if n >= 1 {
		lenYs = w.SeqLen(ys)
	}
	return fv.runLoopR(st, env, lc, label, ws,
		func(st *State) { st.ghost[itName] = fv.fresh(itName, SInt) },
		func(st *State) {
			lc.names[itName] = getIt(st)
			if n >= 1 {
				lc.names[fmt.Sprintf("ys%d", ord)] = ys
				st.ghost[fmt.Sprintf("ys%d", ord)] = ys
			}
			if n >= 2 {
				lc.names[fmt.Sprintf("ys%db", ord)] = ys2
				st.ghost[fmt.Sprintf("ys%db", ord)] = ys2
			}
		},
		func(st *State) Term { return Lt(getIt(st), lenYs) },
		func(st *State) []Outcome {
			if n >= 1 && kobj != nil {
				st.vars[kobj] = w.SeqAt(ys, getIt(st))
				st.Assume(fv.typeInv(st.vars[kobj], kobj.Type()))
			}
			if n >= 2 && vobj != nil {
				st.vars[vobj] = w.SeqAt(ys2, getIt(st))
				st.Assume(fv.typeInv(st.vars[vobj], vobj.Type()))
			}
			outs := fv.execBlock(st, env, x.Body.List)
			for _, o := range outs {
				if o.kind == okNormal || (o.kind == okContinue && (o.label == "" || o.label == label)) {
					o.st.ghost[itName] = Add(getIt(o.st), IntLit(1))
				}
			}
			return outs
		},
		func(st *State) []Term { return []Term{Le(IntLit(0), getIt(st)), Le(getIt(st), lenYs)} })
}

type iterInfo struct {
	val      Term
	ys       Term
	ys2      Term
	pure     bool
	contract bool // yielded / yielded2 of val are pinned down by a /repo contract
	// running the iterator has effects, but preserves these heap fields (frame of the /repo function that returned it)
	hasPres bool
	presPfx string
	presExc []string
}

// returnsFramedIterators: every result expression of fi is a function literal or a call of a /repo function under
// contract with the same `preserves` frame (trusted ones included: their frame is a listed assumption).
func (fv *FuncVerifier) returnsFramedIterators(fi *FuncInfo, pfx string) bool {
	if fi.Decl.Body == nil {
		return false
	}
	if fi.Contr.Has("trusted", 0) {
		return true
	}
	ok := true
	info := fi.Pkg.TypesInfo
	ast.Inspect(fi.Decl.Body, func(n ast.Node) bool {
		switch x := n.(type) {
		case *ast.FuncLit:
			return false
		case *ast.ReturnStmt:
			for _, e := range x.Results {
				switch y := ast.Unparen(e).(type) {
				case *ast.FuncLit:
				case *ast.CallExpr:
					good := false
					if fn, isFn := calleeOf(info, y).(*types.Func); isFn {
						if cfi, has := fv.prog.ByObj[fn.Origin()]; has && cfi.Contr != nil {
							if p2, _ := preservesOf(cfi.Contr); p2 == pfx {
								good = true
							}
						}
					}
					if !good {
						ok = false
					}
				default:
					ok = false
				}
			}
		}
		return true
	})
	return ok
}

// evalIterator evaluates the ranged function expression and reports what is known about what it yields.
func (fv *FuncVerifier) evalIterator(st *State, env *Env, e ast.Expr) iterInfo {
	if call, ok := ast.Unparen(e).(*ast.CallExpr); ok {
		callee := calleeOf(env.info, call)
		if fn, ok := callee.(*types.Func); ok {
			full := fn.FullName()
			if o := fn.Origin(); o != nil {
				full = o.FullName()
			}
			if h, ok := iterExterns[full]; ok {
				fv.externUsed[full] = true
				return h(fv, st, env, call)
			}
			if fi, ok := fv.prog.ByObj[fn.Origin()]; ok && fi.Contr != nil && (fi.Contr.Has("yields", 0) || (returnedLit(fv, fi) > 0 && fi.Contr.Has("yields", returnedLit(fv, fi)))) {
				v := fv.evalCall(st, env, call)
				return iterInfo{val: v[0], pure: true, contract: true}
			}
			// an iterator handed out by a /repo INTERFACE method whose (assumed) contract says `iterator`: running it only
			// calls the loop body; what it yields is unconstrained
			if ic := fv.prog.IfaceContracts[ifaceKey(fn)]; ic != nil && ic.Has("iterator", 0) {
				v := fv.evalCall(st, env, call)
				fv.calleesUsed[ic.Key+" (interface method, contract ASSUMED for every implementation)"] = true
				return iterInfo{val: v[0], pure: true}
			}
			// an iterator handed out by a /repo function whose contract has a `preserves` frame, and which returns
			// only literals (on which that frame is proved as units) or iterators of functions with the same frame:
			// running it respects the frame
			if fi, ok := fv.prog.ByObj[fn.Origin()]; ok && fi.Contr != nil {
				if pfx, exc := preservesOf(fi.Contr); pfx != "" && fv.returnsFramedIterators(fi, pfx) {
					v := fv.evalCall(st, env, call)
					fv.nondet = append(fv.nondet, "range over iterator of "+fi.Key)
					fv.note("range over the iterator returned by %s at %s: yielded values unconstrained, running it preserves what the contract of %s preserves", fi.Key, fv.pos(e.Pos()), fi.Key)
					return iterInfo{val: v[0], pure: false, hasPres: true, presPfx: pfx, presExc: exc}
				}
			}
		}
	}
	if sel, ok := ast.Unparen(e).(*ast.SelectorExpr); ok {
		if s, ok := env.info.Selections[sel]; ok && s.Kind() == types.MethodVal {
			full := s.Obj().(*types.Func).FullName()
			if h, ok := iterMethodValues[full]; ok {
				fv.externUsed[full] = true
				return h(fv, st, env, sel)
			}
			// method value of a /repo method whose contract says `iterator`: it only calls the callback (no effect of
			// its own); what it yields is the unconstrained ghost sequence spec_yielded(value)
			if fi, ok := fv.prog.ByObj[s.Obj().(*types.Func).Origin()]; ok && fi.Contr != nil && fi.Contr.Has("iterator", 0) {
				fv.calleesUsed[fi.Key+" (iterator contract)"] = true
				return iterInfo{val: fv.eval(st, env, e), pure: true}
			}
		}
	}
	v := fv.eval(st, env, e)
	fv.nondet = append(fv.nondet, "range over unknown iterator")
	fv.note("range over iterator %s at %s: yielded values unconstrained, iteration may have arbitrary effects", exprString(e), fv.pos(e.Pos()))
	return iterInfo{val: v, pure: false}
}

// autoIterInvariant derives, without any annotation, what every COMPLETED iteration of a counted loop (one with an
// it<k> ghost) is known to satisfy: the body is executed once on a scratch copy of the arbitrary iteration; the
// conditions under which it reaches its end (rather than leaving the loop by return, break, panic ...) form a formula
// N(it) over (a) symbols that exist before the loop - rigid, hence the same in every iteration - and (b) symbols
// created for this one iteration (havocked variables, call results), which are existentially closed by Skolem
// functions of the iteration number. The loop head may then assume  forall a in [0, it): N(a)  - e.g. for a search
// loop `for k := range m { if P(k) { return true } }` this is "no earlier key satisfied P". The formula is valid by
// construction (each completed iteration took one of the paths summarised), so no obligation is attached to it; it
// is derived from the real body on every run and therefore follows any restructuring of the loop.
func (fv *FuncVerifier) autoIterInvariant(head *State, g Term, lc *loopCtx, body func(st *State) []Outcome, m0 int) (Term, bool) {
	if os.Getenv("GOVC_NO_AUTOINV") != "" {
		return Term{}, false
	}
	itName := fmt.Sprintf("it%d", lc.ord)
	it, ok := head.ghost[itName]
	if !ok || !freshSym.MatchString(it.S) {
		return Term{}, false
	}
	// only loops whose body can leave the loop early: otherwise N is (nearly) `true`
	leaves := false
	var bodyStmt *ast.BlockStmt
	switch b := lc.stmt.(type) {
	case *ast.ForStmt:
		bodyStmt = b.Body
	case *ast.RangeStmt:
		bodyStmt = b.Body
	}
	if bodyStmt == nil {
		return Term{}, false
	}
	ast.Inspect(bodyStmt, func(n ast.Node) bool {
		switch x := n.(type) {
		case *ast.FuncLit:
			return false
		case *ast.ReturnStmt:
			leaves = true
		case *ast.BranchStmt:
			if x.Tok == token.BREAK || x.Tok == token.GOTO || (x.Tok == token.CONTINUE && x.Label != nil) {
				leaves = true
			}
		}
		return true
	})
	if !leaves {
		return Term{}, false
	}
	// dry run: nothing it records may survive
	nObls, nNotes, nBind, nNondet, nPanic, nGW := len(fv.obls), len(fv.notes), len(fv.bindErrors), len(fv.nondet), len(fv.panicStates), len(fv.globalWrites)
	savedNames := map[string]Term{}
	for k, v := range lc.names {
		savedNames[k] = v
	}
	fv.dryRun++
	d := head.Clone()
	d.Assume(g)
	base := len(d.pc)
	basePc := append([]Term(nil), d.pc...)
	outs := body(d)
	fv.dryRun--
	fv.obls, fv.notes, fv.bindErrors, fv.nondet, fv.panicStates, fv.globalWrites = fv.obls[:nObls], fv.notes[:nNotes], fv.bindErrors[:nBind], fv.nondet[:nNondet], fv.panicStates[:nPanic], fv.globalWrites[:nGW]
	for k := range lc.names {
		delete(lc.names, k)
	}
	for k, v := range savedNames {
		lc.names[k] = v
	}
	var alts []Term
	for _, o := range outs {
		if !(o.kind == okNormal || (o.kind == okContinue && o.label == "")) {
			if o.kind == okContinue {
				// a labelled continue: whether it targets this loop is decided by the caller; stay conservative
				return Term{}, false
			}
			continue
		}
		if len(o.st.pc) < base {
			return Term{}, false
		}
		for i := 0; i < base; i++ {
			if o.st.pc[i].S != basePc[i].S {
				return Term{}, false
			}
		}
		alts = append(alts, And(o.st.pc[base:]...))
	}
	if len(alts) == 0 {
		return Term{}, false
	}
	n := Or(alts...)
	if n.S == "true" || len(n.S) > 20000 {
		return Term{}, false
	}
	fv.nfresh++
	bv := fmt.Sprintf("ai%d$", fv.nfresh)
	// substitute: the iteration counter becomes the bound variable; iteration-specific symbols become Skolem terms
	okAll := true
	var hasAt string
	body2 := mapSymbols(n.S, func(tok string) string {
		if tok == it.S {
			return bv
		}
		if !freshSym.MatchString(tok) {
			return tok
		}
		num, _ := strconv.Atoi(tok[strings.LastIndex(tok, "!")+1:])
		if num <= m0 {
			return tok
		}
		srt, known := fv.consts[tok]
		if !known {
			okAll = false
			return tok
		}
		sk := fv.w.UFun("sk_"+tok+"_"+sanitize(fv.fn.Key), []Sort{SInt}, srt, "")
		return "(" + sk + " " + bv + ")"
	})
	if !okAll {
		return Term{}, false
	}
	// trigger: an element read at the bound position, if the summary has one
	if m := regexp.MustCompile(`\(at_[A-Za-z0-9_]+ [^\s()]+ ` + regexp.QuoteMeta(bv) + `\)`).FindString(body2); m != "" {
		hasAt = m
	}
	pat := ""
	if hasAt != "" {
		pat = " :pattern (" + hasAt + ")"
	}
	var q string
	if pat != "" {
		q = fmt.Sprintf("(forall ((%[1]s Int)) (! (=> (and (<= 0 %[1]s) (< %[1]s %[2]s)) %[3]s)%[4]s))", bv, it.S, body2, pat)
	} else {
		q = fmt.Sprintf("(forall ((%[1]s Int)) (=> (and (<= 0 %[1]s) (< %[1]s %[2]s)) %[3]s))", bv, it.S, body2)
	}
	fv.note("engine-derived iteration summary assumed at the head of loop %d (%s)", lc.ord, fv.pos(lc.bodyPos))
	return Term{q, SBool}, true
}

// loopHasNoClauses: the contract of the function under verification says nothing about loop ord.
func (fv *FuncVerifier) loopHasNoClauses(ord int) bool {
	if fv.fn.Contr == nil {
		return true
	}
	for _, cl := range fv.fn.Contr.Clauses {
		if cl.Loop == ord && cl.Lit == 0 && !cl.Off {
			return false
		}
	}
	return true
}

var freshSym = regexp.MustCompile(`^[A-Za-z0-9_]+![0-9]+$`)

// mapSymbols rewrites every symbol token of an SMT-LIB term (string literals are copied verbatim).
func mapSymbols(s string, f func(string) string) string {
	var b strings.Builder
	i := 0
	for i < len(s) {
		c := s[i]
		switch {
		case c == '"':
			j := i + 1
			for j < len(s) {
				if s[j] == '"' {
					if j+1 < len(s) && s[j+1] == '"' {
						j += 2
						continue
					}
					break
				}
				j++
			}
			if j < len(s) {
				j++
			}
			b.WriteString(s[i:j])
			i = j
		case c == '|':
			j := i + 1
			for j < len(s) && s[j] != '|' {
				j++
			}
			if j < len(s) {
				j++
			}
			b.WriteString(s[i:j])
			i = j
		case c == '(' || c == ')' || c == ' ' || c == '\n' || c == '\t':
			b.WriteByte(c)
			i++
		default:
			j := i
			for j < len(s) && s[j] != '(' && s[j] != ')' && s[j] != ' ' && s[j] != '\n' && s[j] != '\t' && s[j] != '"' {
				j++
			}
			b.WriteString(f(s[i:j]))
			i = j
		}
	}
	return b.String()
}
