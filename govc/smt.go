package main

import (
	"fmt"
	"sort"
	"strings"
)

// Sort is an SMT-LIB sort expression.
type Sort string

const (
	SInt  Sort = "Int"
	SBool Sort = "Bool"
	SRef  Sort = "Ref"
	SReal Sort = "Real"
)

// Term is an SMT-LIB term together with its sort.
type Term struct {
	S    string
	Sort Sort
}

func (t Term) String() string { return t.S }

func T(sort Sort, format string, args ...any) Term {
	return Term{S: fmt.Sprintf(format, args...), Sort: sort}
}

func IntLit(n int64) Term {
	if n < 0 {
		return Term{fmt.Sprintf("(- %d)", -n), SInt}
	}
	return Term{fmt.Sprintf("%d", n), SInt}
}

var (
	True  = Term{"true", SBool}
	False = Term{"false", SBool}
	Null  = Term{"null", SRef}
)

func BoolLit(b bool) Term {
	if b {
		return True
	}
	return False
}

func And(ts ...Term) Term {
	var out []string
	for _, t := range ts {
		if t.S == "true" {
			continue
		}
		if t.S == "false" {
			return False
		}
		out = append(out, t.S)
	}
	switch len(out) {
	case 0:
		return True
	case 1:
		return Term{out[0], SBool}
	}
	return Term{"(and " + strings.Join(out, " ") + ")", SBool}
}

func Or(ts ...Term) Term {
	var out []string
	for _, t := range ts {
		if t.S == "false" {
			continue
		}
		if t.S == "true" {
			return True
		}
		out = append(out, t.S)
	}
	switch len(out) {
	case 0:
		return False
	case 1:
		return Term{out[0], SBool}
	}
	return Term{"(or " + strings.Join(out, " ") + ")", SBool}
}

func Not(t Term) Term {
	switch t.S {
	case "true":
		return False
	case "false":
		return True
	}
	if strings.HasPrefix(t.S, "(not ") {
		return Term{t.S[5 : len(t.S)-1], SBool}
	}
	return Term{"(not " + t.S + ")", SBool}
}

func Implies(a, b Term) Term {
	if a.S == "true" {
		return b
	}
	if a.S == "false" || b.S == "true" {
		return True
	}
	return Term{"(=> " + a.S + " " + b.S + ")", SBool}
}

func Ite(c, a, b Term) Term {
	if c.S == "true" {
		return a
	}
	if c.S == "false" {
		return b
	}
	if a.S == b.S {
		return a
	}
	return Term{"(ite " + c.S + " " + a.S + " " + b.S + ")", a.Sort}
}

func App(sort Sort, f string, args ...Term) Term {
	if len(args) == 0 {
		return Term{f, sort}
	}
	var sb strings.Builder
	sb.WriteString("(")
	sb.WriteString(f)
	for _, a := range args {
		sb.WriteString(" ")
		sb.WriteString(a.S)
	}
	sb.WriteString(")")
	return Term{sb.String(), sort}
}

func Add(a, b Term) Term {
	if b.S == "0" {
		return a
	}
	if a.S == "0" {
		return b
	}
	return App(SInt, "+", a, b)
}
func Sub(a, b Term) Term {
	if b.S == "0" {
		return a
	}
	return App(SInt, "-", a, b)
}
func Le(a, b Term) Term { return App(SBool, "<=", a, b) }
func Lt(a, b Term) Term { return App(SBool, "<", a, b) }
func Ge(a, b Term) Term { return App(SBool, ">=", a, b) }
func Gt(a, b Term) Term { return App(SBool, ">", a, b) }

// sanitize turns an arbitrary sort expression / Go name into an SMT simple symbol fragment.
func sanitize(s string) string {
	var sb strings.Builder
	for _, c := range s {
		switch {
		case c >= 'a' && c <= 'z', c >= 'A' && c <= 'Z', c >= '0' && c <= '9', c == '_':
			sb.WriteRune(c)
		case c == '.', c == '/', c == '-':
			sb.WriteRune('_')
		case c == '*':
			sb.WriteString("P")
		case c == '[', c == ']', c == '(', c == ')', c == ' ':
			// drop
		default:
			sb.WriteString("_")
		}
	}
	return sb.String()
}

// Def is a named group of SMT declarations/axioms; Syms are the symbols it introduces.
type Def struct {
	Name string
	Syms []string
	Text string
	ord  int
}

// World holds every declaration produced during a run; queries pull in only what they reference.
type World struct {
	defs    map[string]*Def
	bySym   map[string]*Def
	order   int
	seqOf   map[Sort]Sort // elem -> seq sort
	elemOf  map[Sort]Sort // seq sort -> elem
	mapKV   map[Sort][2]Sort
	structs map[Sort][]structField
	tags    map[string]int // Go type string -> dyn tag
	tagList []string
	always  []string // def names included in every query
}

type structField struct {
	Name string
	Sort Sort
}

func NewWorld() *World {
	w := &World{
		defs: map[string]*Def{}, bySym: map[string]*Def{},
		seqOf: map[Sort]Sort{}, elemOf: map[Sort]Sort{}, mapKV: map[Sort][2]Sort{},
		structs: map[Sort][]structField{}, tags: map[string]int{},
	}
	w.AddDef("core", []string{"Ref", "null", "dyn", "fnid", "Fuel", "FZ", "FS", "Abs"}, `(declare-sort Ref 0)
(declare-sort Abs 0)
(declare-fun null () Ref)
(declare-fun dyn (Ref) Int)
(assert (= (dyn null) 0))
(declare-sort Fuel 0)
(declare-fun FZ () Fuel)
(declare-fun FS (Fuel) Fuel)
`)
	w.always = append(w.always, "core")
	return w
}

func (w *World) AddDef(name string, syms []string, text string) {
	if _, ok := w.defs[name]; ok {
		return
	}
	w.order++
	d := &Def{Name: name, Syms: syms, Text: text, ord: w.order}
	w.defs[name] = d
	for _, s := range syms {
		if old, ok := w.bySym[s]; ok && old != d {
			panic("duplicate SMT symbol " + s + " in " + name + " and " + old.Name)
		}
		w.bySym[s] = d
	}
}

// Tag returns the dynamic-type tag (positive integer) for a Go type string.
func (w *World) Tag(typ string) Term {
	if n, ok := w.tags[typ]; ok {
		return IntLit(int64(n))
	}
	n := len(w.tags) + 1
	w.tags[typ] = n
	w.tagList = append(w.tagList, typ)
	return IntLit(int64(n))
}

// SeqSort returns (declaring if necessary) the axiomatised sequence sort over elem.
func (w *World) SeqSort(elem Sort) Sort {
	if s, ok := w.seqOf[elem]; ok {
		return s
	}
	x := sanitize(string(elem))
	s := Sort("Seq_" + x)
	w.seqOf[elem] = s
	w.elemOf[s] = elem
	r := strings.NewReplacer("$S", string(s), "$E", string(elem), "$X", x)
	text := r.Replace(seqTemplate)
	syms := []string{string(s)}
	for _, f := range []string{"len", "at", "empty", "unit", "cat", "sub", "upd", "mkseq", "diff", "eq", "zero"} {
		syms = append(syms, f+"_"+x)
	}
	w.AddDef("seq:"+string(s), syms, text)
	return s
}

func seqX(s Sort) string { return strings.TrimPrefix(string(s), "Seq_") }

func (w *World) IsSeq(s Sort) bool { _, ok := w.elemOf[s]; return ok }
func (w *World) IsMap(s Sort) bool { _, ok := w.mapKV[s]; return ok }

func (w *World) SeqLen(s Term) Term { return App(SInt, "len_"+seqX(s.Sort), s) }
func (w *World) SeqAt(s, i Term) Term {
	return App(w.elemOf[s.Sort], "at_"+seqX(s.Sort), s, i)
}
func (w *World) SeqEmpty(seq Sort) Term { return Term{"empty_" + seqX(seq), seq} }
func (w *World) SeqUnit(seq Sort, e Term) Term {
	return App(seq, "unit_"+seqX(seq), e)
}
func (w *World) SeqCat(a, b Term) Term {
	if strings.HasPrefix(a.S, "empty_") {
		return b
	}
	if strings.HasPrefix(b.S, "empty_") {
		return a
	}
	return App(a.Sort, "cat_"+seqX(a.Sort), a, b)
}
func (w *World) SeqSub(s, a, b Term) Term { return App(s.Sort, "sub_"+seqX(s.Sort), s, a, b) }
func (w *World) SeqUpd(s, i, e Term) Term { return App(s.Sort, "upd_"+seqX(s.Sort), s, i, e) }
// SeqIn is membership `e in s`, axiomatised without quantifier alternation (in/idx functions): robust where
// `exists i :: s[i] == e` needs a witness the e-matcher cannot find.
func (w *World) SeqIn(e, s Term) Term {
	x := seqX(s.Sort)
	if _, ok := w.defs["seqin:"+x]; !ok {
		r := strings.NewReplacer("$S", string(s.Sort), "$E", string(w.elemOf[s.Sort]), "$X", x)
		w.AddDef("seqin:"+x, []string{"in_" + x, "idx_" + x}, r.Replace(seqInTemplate))
	}
	return App(SBool, "in_"+x, e, s)
}

const seqInTemplate = `(declare-fun in_$X ($E $S) Bool)
(declare-fun idx_$X ($E $S) Int)
(assert (forall ((e $E)) (! (not (in_$X e empty_$X)) :pattern ((in_$X e empty_$X)))))
(assert (forall ((e $E) (y $E)) (! (= (in_$X e (unit_$X y)) (= e y)) :pattern ((in_$X e (unit_$X y))))))
(assert (forall ((e $E) (a $S) (b $S)) (! (= (in_$X e (cat_$X a b)) (or (in_$X e a) (in_$X e b))) :pattern ((in_$X e (cat_$X a b))))))
(assert (forall ((e $E) (s $S)) (! (=> (in_$X e s) (and (<= 0 (idx_$X e s)) (< (idx_$X e s) (len_$X s)) (= (at_$X s (idx_$X e s)) e))) :pattern ((in_$X e s)))))
(assert (forall ((s $S) (i Int)) (! (=> (and (<= 0 i) (< i (len_$X s))) (in_$X (at_$X s i) s)) :pattern ((at_$X s i)))))
(assert (forall ((e $E) (s $S) (a Int) (b Int)) (! (=> (and (<= 0 a) (<= a b) (<= b (len_$X s)) (in_$X e (sub_$X s a b))) (in_$X e s)) :pattern ((in_$X e (sub_$X s a b))))))
`

func (w *World) SeqMk(seq Sort, n Term) Term { return App(seq, "mkseq_"+seqX(seq), n) }
func (w *World) SeqEq(a, b Term) Term {
	if a.S == b.S {
		return True
	}
	return App(SBool, "eq_"+seqX(a.Sort), a, b)
}

// SeqLit builds the sequence of the given element terms.
func (w *World) SeqLit(seq Sort, elems []Term) Term {
	r := w.SeqEmpty(seq)
	for _, e := range elems {
		r = w.SeqCat(r, w.SeqUnit(seq, e))
	}
	return r
}

// StrLit encodes a Go string literal (bytes) as a Seq_Int term.
func (w *World) StrLit(s string) Term {
	seq := w.SeqSort(SInt)
	if len(s) == 0 {
		return w.SeqEmpty(seq)
	}
	// named constant with defining axioms keeps queries small and readable
	name := fmt.Sprintf("str_%x", s)
	if len(name) > 60 {
		name = fmt.Sprintf("str_%x_%d", s[:20], len(w.defs))
	}
	if _, ok := w.defs["strlit:"+s]; !ok {
		var sb strings.Builder
		fmt.Fprintf(&sb, "(declare-fun %s () %s) ; %q\n(assert (= (len_Int %s) %d))\n", name, seq, s, name, len(s))
		for i := 0; i < len(s); i++ {
			fmt.Fprintf(&sb, "(assert (= (at_Int %s %d) %d))\n", name, i, s[i])
		}
		w.AddDef("strlit:"+s, []string{name}, sb.String())
	}
	return Term{w.defs["strlit:"+s].Syms[0], seq}
}

const seqTemplate = `(declare-sort $S 0)
(declare-fun len_$X ($S) Int)
(declare-fun at_$X ($S Int) $E)
(declare-fun empty_$X () $S)
(declare-fun unit_$X ($E) $S)
(declare-fun cat_$X ($S $S) $S)
(declare-fun sub_$X ($S Int Int) $S)
(declare-fun upd_$X ($S Int $E) $S)
(declare-fun mkseq_$X (Int) $S)
(declare-fun zero_$X () $E)
(declare-fun diff_$X ($S $S) Int)
(declare-fun eq_$X ($S $S) Bool)
(assert (forall ((s $S)) (! (>= (len_$X s) 0) :pattern ((len_$X s)))))
(assert (= (len_$X empty_$X) 0))
(assert (forall ((s $S)) (! (=> (= (len_$X s) 0) (= s empty_$X)) :pattern ((len_$X s)))))
(assert (forall ((e $E)) (! (and (= (len_$X (unit_$X e)) 1) (= (at_$X (unit_$X e) 0) e)) :pattern ((unit_$X e)))))
(assert (forall ((a $S) (b $S)) (! (= (len_$X (cat_$X a b)) (+ (len_$X a) (len_$X b))) :pattern ((cat_$X a b)))))
(assert (forall ((a $S) (b $S) (i Int)) (! (and (=> (and (<= 0 i) (< i (len_$X a))) (= (at_$X (cat_$X a b) i) (at_$X a i))) (=> (and (<= (len_$X a) i) (< i (+ (len_$X a) (len_$X b)))) (= (at_$X (cat_$X a b) i) (at_$X b (- i (len_$X a)))))) :pattern ((at_$X (cat_$X a b) i)))))
(assert (forall ((s $S) (a Int) (b Int)) (! (=> (and (<= 0 a) (<= a b) (<= b (len_$X s))) (= (len_$X (sub_$X s a b)) (- b a))) :pattern ((sub_$X s a b)))))
(assert (forall ((s $S) (a Int) (b Int) (i Int)) (! (=> (and (<= 0 a) (<= a b) (<= b (len_$X s)) (<= 0 i) (< i (- b a))) (= (at_$X (sub_$X s a b) i) (at_$X s (+ a i)))) :pattern ((at_$X (sub_$X s a b) i)))))
(assert (forall ((s $S) (i Int) (e $E)) (! (=> (and (<= 0 i) (< i (len_$X s))) (= (len_$X (upd_$X s i e)) (len_$X s))) :pattern ((upd_$X s i e)))))
(assert (forall ((s $S) (i Int) (e $E) (j Int)) (! (=> (and (<= 0 i) (< i (len_$X s)) (<= 0 j) (< j (len_$X s))) (= (at_$X (upd_$X s i e) j) (ite (= i j) e (at_$X s j)))) :pattern ((at_$X (upd_$X s i e) j)))))
(assert (forall ((n Int)) (! (=> (>= n 0) (= (len_$X (mkseq_$X n)) n)) :pattern ((mkseq_$X n)))))
(assert (forall ((n Int) (i Int)) (! (=> (and (<= 0 i) (< i n)) (= (at_$X (mkseq_$X n) i) zero_$X)) :pattern ((at_$X (mkseq_$X n) i)))))
(assert (forall ((a $S) (b $S)) (! (= (eq_$X a b) (= a b)) :pattern ((eq_$X a b)))))
(assert (forall ((a $S) (b $S)) (! (or (= a b) (not (= (len_$X a) (len_$X b))) (and (<= 0 (diff_$X a b)) (< (diff_$X a b) (len_$X a)) (not (= (at_$X a (diff_$X a b)) (at_$X b (diff_$X a b)))))) :pattern ((eq_$X a b)))))
(assert (forall ((a $S)) (! (= (cat_$X a empty_$X) a) :pattern ((cat_$X a empty_$X)))))
(assert (forall ((a $S)) (! (= (cat_$X empty_$X a) a) :pattern ((cat_$X empty_$X a)))))
(assert (forall ((a $S) (b $S) (c $S)) (! (= (cat_$X (cat_$X a b) c) (cat_$X a (cat_$X b c))) :pattern ((cat_$X (cat_$X a b) c)))))
(assert (forall ((s $S) (a Int)) (! (=> (and (<= 0 a) (<= a (len_$X s))) (= (sub_$X s a a) empty_$X)) :pattern ((sub_$X s a a)))))
(assert (forall ((s $S) (n Int)) (! (=> (= n (len_$X s)) (= (sub_$X s 0 n) s)) :pattern ((sub_$X s 0 n)))))
(assert (forall ((s $S) (a Int) (b Int) (c Int)) (! (=> (and (<= 0 a) (<= a b) (<= b c) (<= c (len_$X s))) (= (cat_$X (sub_$X s a b) (sub_$X s b c)) (sub_$X s a c))) :pattern ((cat_$X (sub_$X s a b) (sub_$X s b c))))))
(assert (forall ((s $S) (a Int) (b Int) (c Int) (d Int)) (! (=> (and (<= 0 a) (<= a b) (<= b (len_$X s)) (<= 0 c) (<= c d) (<= d (- b a))) (= (sub_$X (sub_$X s a b) c d) (sub_$X s (+ a c) (+ a d)))) :pattern ((sub_$X (sub_$X s a b) c d)))))
(assert (forall ((a $S) (b $S)) (! (= (sub_$X (cat_$X a b) 0 (len_$X a)) a) :pattern ((sub_$X (cat_$X a b) 0 (len_$X a))))))
`

// MapSort returns the map datatype for key/value sorts.
func (w *World) MapSort(k, v Sort) Sort {
	x := sanitize(string(k)) + "__" + sanitize(string(v))
	s := Sort("Map_" + x)
	if _, ok := w.mapKV[s]; ok {
		return s
	}
	w.mapKV[s] = [2]Sort{k, v}
	r := strings.NewReplacer("$M", string(s), "$K", string(k), "$V", string(v), "$X", x)
	text := r.Replace(mapTemplate)
	syms := []string{string(s), "mkmap_" + x, "dom_" + x, "val_" + x, "isnil_" + x, "card_" + x, "dflt_" + x, "emptymap_" + x, "nilmap_" + x}
	w.AddDef("map:"+string(s), syms, text)
	return s
}

func mapX(s Sort) string { return strings.TrimPrefix(string(s), "Map_") }

const mapTemplate = `(declare-datatypes (($M 0)) (((mkmap_$X (dom_$X (Array $K Bool)) (val_$X (Array $K $V)) (isnil_$X Bool)))))
(declare-fun card_$X ((Array $K Bool)) Int)
(declare-fun dflt_$X () (Array $K $V))
(define-fun emptymap_$X () $M (mkmap_$X ((as const (Array $K Bool)) false) dflt_$X false))
(define-fun nilmap_$X () $M (mkmap_$X ((as const (Array $K Bool)) false) dflt_$X true))
(assert (forall ((d (Array $K Bool))) (! (>= (card_$X d) 0) :pattern ((card_$X d)))))
(assert (= (card_$X ((as const (Array $K Bool)) false)) 0))
(assert (forall ((d (Array $K Bool)) (k $K)) (! (=> (= (card_$X d) 0) (not (select d k))) :pattern ((card_$X d) (select d k)))))
(assert (forall ((d (Array $K Bool)) (k $K)) (! (= (card_$X (store d k true)) (ite (select d k) (card_$X d) (+ (card_$X d) 1))) :pattern ((card_$X (store d k true))))))
(assert (forall ((d (Array $K Bool)) (k $K)) (! (= (card_$X (store d k false)) (ite (select d k) (- (card_$X d) 1) (card_$X d))) :pattern ((card_$X (store d k false))))))
`

func (w *World) MapHas(m, k Term) Term {
	return App(SBool, "select", App("", "dom_"+mapX(m.Sort), m), k)
}
func (w *World) MapGetRaw(m, k Term) Term {
	return App(w.mapKV[m.Sort][1], "select", App("", "val_"+mapX(m.Sort), m), k)
}
func (w *World) MapGet(m, k, zero Term) Term {
	return Ite(w.MapHas(m, k), w.MapGetRaw(m, k), zero)
}
func (w *World) MapPut(m, k, v Term) Term {
	x := mapX(m.Sort)
	return T(m.Sort, "(mkmap_%s (store (dom_%s %s) %s true) (store (val_%s %s) %s %s) false)", x, x, m.S, k.S, x, m.S, k.S, v.S)
}
func (w *World) MapDel(m, k Term) Term {
	x := mapX(m.Sort)
	return T(m.Sort, "(mkmap_%s (store (dom_%s %s) %s false) (val_%s %s) (isnil_%s %s))", x, x, m.S, k.S, x, m.S, x, m.S)
}
func (w *World) MapIsNil(m Term) Term { return App(SBool, "isnil_"+mapX(m.Sort), m) }
func (w *World) MapLen(m Term) Term {
	return App(SInt, "card_"+mapX(m.Sort), App("", "dom_"+mapX(m.Sort), m))
}
func (w *World) MapEmpty(s Sort) Term { return Term{"emptymap_" + mapX(s), s} }
func (w *World) MapNil(s Sort) Term   { return Term{"nilmap_" + mapX(s), s} }

// StructSort declares a datatype for a struct value type.
func (w *World) StructSort(name string, fields []structField) Sort {
	x := sanitize(name)
	s := Sort("St_" + x)
	if _, ok := w.structs[s]; ok {
		return s
	}
	w.structs[s] = fields
	var sb strings.Builder
	syms := []string{string(s), "mk_" + string(s)}
	fmt.Fprintf(&sb, "(declare-datatypes ((%s 0)) (((mk_%s", s, s)
	for _, f := range fields {
		fmt.Fprintf(&sb, " (%s_%s %s)", s, f.Name, f.Sort)
		syms = append(syms, fmt.Sprintf("%s_%s", s, f.Name))
	}
	if len(fields) == 0 {
		fmt.Fprintf(&sb, " (%s_dummy Bool)", s)
		syms = append(syms, fmt.Sprintf("%s_dummy", s))
	}
	sb.WriteString("))))\n")
	w.AddDef("struct:"+string(s), syms, sb.String())
	return s
}

func (w *World) IsStruct(s Sort) bool { _, ok := w.structs[s]; return ok }

func (w *World) StructGet(v Term, field string) Term {
	// projection of a constructor application reduces syntactically
	if args, ok := splitApp(v.S, "mk_"+string(v.Sort)); ok && len(args) == len(w.structs[v.Sort]) {
		for i, f := range w.structs[v.Sort] {
			if f.Name == field {
				return Term{args[i], f.Sort}
			}
		}
	}
	for _, f := range w.structs[v.Sort] {
		if f.Name == field {
			return App(f.Sort, fmt.Sprintf("%s_%s", v.Sort, field), v)
		}
	}
	panic("no field " + field + " in " + string(v.Sort))
}

func (w *World) StructMk(s Sort, vals []Term) Term {
	if len(w.structs[s]) == 0 {
		return T(s, "(mk_%s false)", s)
	}
	return App(s, "mk_"+string(s), vals...)
}

func (w *World) StructSet(v Term, field string, nv Term) Term {
	var vals []Term
	for _, f := range w.structs[v.Sort] {
		if f.Name == field {
			vals = append(vals, nv)
		} else {
			vals = append(vals, w.StructGet(v, f.Name))
		}
	}
	return w.StructMk(v.Sort, vals)
}

// Box / Unbox move non-reference values in and out of interface values.
func (w *World) boxDef(s Sort) string {
	x := sanitize(string(s))
	name := "box:" + x
	if _, ok := w.defs[name]; !ok {
		text := fmt.Sprintf(`(declare-fun box_%[1]s (%[2]s) Ref)
(declare-fun unbox_%[1]s (Ref) %[2]s)
(assert (forall ((v %[2]s)) (! (and (= (unbox_%[1]s (box_%[1]s v)) v) (not (= (box_%[1]s v) null))) :pattern ((box_%[1]s v)))))
`, x, s)
		w.AddDef(name, []string{"box_" + x, "unbox_" + x}, text)
	}
	return x
}

func (w *World) Box(v Term) Term {
	if v.Sort == SRef {
		return v
	}
	return App(SRef, "box_"+w.boxDef(v.Sort), v)
}

func (w *World) Unbox(v Term, s Sort) Term {
	if s == SRef {
		return v
	}
	return App(s, "unbox_"+w.boxDef(s), v)
}

// UFun declares (once) an uninterpreted function.
func (w *World) UFun(name string, args []Sort, res Sort, axioms string) string {
	if _, ok := w.defs["ufun:"+name]; !ok {
		var as []string
		for _, a := range args {
			as = append(as, string(a))
		}
		w.AddDef("ufun:"+name, []string{name}, fmt.Sprintf("(declare-fun %s (%s) %s)\n%s", name, strings.Join(as, " "), res, axioms))
	}
	return name
}

// ---- query rendering ----

func smtTokens(s string, f func(tok string)) {
	start := -1
	for i := 0; i < len(s); i++ {
		c := s[i]
		if c == '(' || c == ')' || c == ' ' || c == '\n' || c == '\t' {
			if start >= 0 {
				f(s[start:i])
				start = -1
			}
			continue
		}
		if c == ';' { // comment to end of line
			if start >= 0 {
				f(s[start:i])
				start = -1
			}
			for i < len(s) && s[i] != '\n' {
				i++
			}
			continue
		}
		if start < 0 {
			start = i
		}
	}
	if start >= 0 {
		f(s[start:])
	}
}

// Render builds a complete SMT-LIB script: needed defs (transitively), constants, assumptions, negated goal.
func (w *World) Render(consts map[string]Sort, assumptions []Term, goal Term, extra []string) string {
	need := map[*Def]bool{}
	needConst := map[string]bool{}
	var visit func(text string)
	visit = func(text string) {
		smtTokens(text, func(tok string) {
			if d, ok := w.bySym[tok]; ok {
				if !need[d] {
					need[d] = true
					visit(d.Text)
				}
			} else if srt, ok := consts[tok]; ok {
				if !needConst[tok] {
					needConst[tok] = true
					visit(string(srt))
				}
			}
		})
	}
	for _, n := range w.always {
		d := w.defs[n]
		need[d] = true
		visit(d.Text)
	}
	for _, a := range assumptions {
		visit(a.S)
	}
	visit(goal.S)
	for _, e := range extra {
		visit(e)
	}
	ds := w.topoOrder(need)
	var sb strings.Builder
	for _, d := range ds {
		sb.WriteString("; --- " + strings.ReplaceAll(fmt.Sprintf("%q", d.Name), "\n", " ") + "\n")
		sb.WriteString(d.Text)
		if !strings.HasSuffix(d.Text, "\n") {
			sb.WriteString("\n")
		}
	}
	var cs []string
	for c := range needConst {
		cs = append(cs, c)
	}
	sort.Strings(cs)
	for _, c := range cs {
		fmt.Fprintf(&sb, "(declare-fun %s () %s)\n", c, consts[c])
	}
	for _, e := range extra {
		sb.WriteString(e)
		sb.WriteString("\n")
	}
	for _, a := range assumptions {
		if a.S == "true" {
			continue
		}
		fmt.Fprintf(&sb, "(assert %s)\n", a.S)
	}
	fmt.Fprintf(&sb, "(assert (not %s))\n", goal.S)
	return sb.String()
}

// topoOrder orders definition groups by dependency, ties broken by name, so that the text of a query does not
// depend on which other functions were translated before (deterministic queries => reproducible solver behaviour).
func (w *World) topoOrder(need map[*Def]bool) []*Def {
	deps := map[*Def]map[*Def]bool{}
	for d := range need {
		deps[d] = map[*Def]bool{}
		smtTokens(d.Text, func(tok string) {
			if o, ok := w.bySym[tok]; ok && o != d && need[o] {
				deps[d][o] = true
			}
		})
	}
	var all []*Def
	for d := range need {
		all = append(all, d)
	}
	sort.Slice(all, func(i, j int) bool { return all[i].Name < all[j].Name })
	var out []*Def
	done := map[*Def]bool{}
	var visit func(d *Def, stack map[*Def]bool)
	visit = func(d *Def, stack map[*Def]bool) {
		if done[d] || stack[d] {
			return
		}
		stack[d] = true
		var ds []*Def
		for o := range deps[d] {
			ds = append(ds, o)
		}
		sort.Slice(ds, func(i, j int) bool { return ds[i].Name < ds[j].Name })
		for _, o := range ds {
			visit(o, stack)
		}
		delete(stack, d)
		done[d] = true
		out = append(out, d)
	}
	// core first
	for _, n := range w.always {
		visit(w.defs[n], map[*Def]bool{})
	}
	for _, d := range all {
		visit(d, map[*Def]bool{})
	}
	return out
}

// splitApp splits "(head a1 a2 ...)" into its top-level arguments if the head matches.
func splitApp(s, head string) ([]string, bool) {
	if !strings.HasPrefix(s, "("+head+" ") || !strings.HasSuffix(s, ")") {
		return nil, false
	}
	body := s[len(head)+2 : len(s)-1]
	var args []string
	depth, start := 0, 0
	for i := 0; i < len(body); i++ {
		switch body[i] {
		case '(':
			depth++
		case ')':
			depth--
		case ' ':
			if depth == 0 {
				if i > start {
					args = append(args, body[start:i])
				}
				start = i + 1
			}
		}
	}
	if start < len(body) {
		args = append(args, body[start:])
	}
	return args, depth == 0
}
