package main

import (
	"regexp"
	"fmt"
	"go/ast"
	"go/constant"
	"go/token"
	"go/types"
	"sort"
	"strconv"
	"strings"
)

// Closure is a function literal bound to a value term during symbolic execution.
type Closure struct {
	Lit  *ast.FuncLit
	Info *types.Info
	Sig  *types.Signature // set for a /repo function inlined as if it were a literal
}

type deferred struct {
	call *ast.CallExpr
}

// State is a symbolic state: variable valuation, field heaps, path condition.
type State struct {
	resliced map[types.Object][2]Term // variables holding a reslice of a slice not owned by this function (see trackReslice)
	vars   map[types.Object]Term
	heap   map[string]Term
	epoch  int
	pc     []Term
	clos   map[string]*Closure
	ghost  map[string]Term
	defers []deferred
	hmark  map[string]int
	baseEpoch int // epoch before the first entry of havocs
	// protected: references to objects allocated by this function that provably never escape it
	// (only used as method receivers / field bases): calls with unknown effects cannot touch them
	protected []Term
	// stableCells: heap cells the contract declares stable under calls with unknown effects (`stable p.f`)
	stableCells []stableCell
	// havocs: calls with unknown effects that PRESERVED some heap fields (key prefix, minus exceptions); a field read
	// for the first time after such a call still has its older value if the call preserved it
	havocs []havocEvent
	// heapParams != nil: spec-function translation mode, heap reads become parameters h$<key>
	heapParams map[string]Sort
}

func (s *State) Clone() *State {
	n := &State{vars: make(map[types.Object]Term, len(s.vars)), heap: make(map[string]Term, len(s.heap)), epoch: s.epoch,
		clos: s.clos, ghost: make(map[string]Term, len(s.ghost)), hmark: make(map[string]int, len(s.hmark)), heapParams: s.heapParams, baseEpoch: s.baseEpoch}
	for k, v := range s.hmark {
		n.hmark[k] = v
	}
	for k, v := range s.vars {
		n.vars[k] = v
	}
	for k, v := range s.heap {
		n.heap[k] = v
	}
	for k, v := range s.ghost {
		n.ghost[k] = v
	}
	n.pc = append([]Term(nil), s.pc...)
	n.defers = append([]deferred(nil), s.defers...)
	if s.resliced != nil {
		n.resliced = map[types.Object][2]Term{}
		for k, v := range s.resliced {
			n.resliced[k] = v
		}
	}
	n.protected = append([]Term(nil), s.protected...)
	n.stableCells = s.stableCells
	n.havocs = append([]havocEvent(nil), s.havocs...)
	return n
}

func (s *State) Assume(t Term) {
	if t.S == "true" {
		return
	}
	s.pc = append(s.pc, t)
}

type havocEvent struct {
	epoch  int
	prefix string   // keys with this prefix are preserved ...
	except []string // ... except these
}

func (h havocEvent) preserves(key string) bool {
	if h.prefix == "" {
		return false
	}
	match := false
	for _, p := range strings.Fields(h.prefix) {
		if strings.HasPrefix(key, p) {
			match = true
		}
	}
	if !match {
		return false
	}
	for _, e := range h.except {
		if e == key {
			return false
		}
	}
	return true
}

type stableCell struct {
	key string
	ref Term
}

// Env is the evaluation environment of an expression.
type Env struct {
	info   *types.Info
	binds  map[types.Object]Term
	names  map[string]Term // ghost names (result, it1, ks1 ...) by identifier, for wrapper params
	old    *State
	oldB   map[types.Object]Term
	gparams map[string]types.Object // wrapper parameters standing for ghost names (outText, it1, ...)
	entry  *State
	spec   bool
	guards []Term
	// in code mode: the function verifier needs the enclosing closure stack for returns
}

func (e *Env) with(guard Term) *Env {
	n := *e
	n.guards = append(append([]Term(nil), e.guards...), guard)
	return &n
}

func (e *Env) bind(o types.Object, t Term) *Env {
	n := *e
	n.binds = make(map[types.Object]Term, len(e.binds)+1)
	for k, v := range e.binds {
		n.binds[k] = v
	}
	n.binds[o] = t
	return &n
}

// Obligation is one verification condition.
type Obligation struct {
	Name    string
	Func    string
	Class   string
	Kind    string
	Site    token.Pos
	Pos     string
	Assume  []Term
	Goal    Term
	Desc    string
	consts  map[string]Sort
	Cover   bool // vacuity/cover query: expected SAT-or-unknown (not unsat)
	PathIdx int
	// results
	Status  string // unsat, sat, unknown, timeout, error
	Solver  string
	Seconds float64
	Output  string
	Props   []string
}

// FuncVerifier generates the obligations of one function.
type FuncVerifier struct {
	w      *World
	prog   *Program
	fn     *FuncInfo
	info   *types.Info
	consts map[string]Sort
	obls   []*Obligation
	nfresh int
	entry  *State
	loops  map[ast.Stmt]int
	lits   map[*ast.FuncLit]int
	notes  []string // abstractions / dropped calls
	dropped map[string]bool
	externUsed map[string]bool
	calleesUsed map[string]bool
	inlineDepth int
	curLit int // ordinal of the literal being verified as a unit (0 = function)
	closureLits    map[*types.Var]*ast.FuncLit
	specMode       bool
	specResSort    Sort
	ghostTypes     map[string]types.Type
	loopGhostTypes map[string]types.Type
	entryParams    map[types.Object]Term
	bindErrors     []string
	globalWrites   []string
	mapRangeDepth  int      // > 0 while the body of a loop whose order is MAP ORDER is being executed
	orderLeaks     []string // user code / effectful iterators run from inside such a loop (for `ordered`)
	globalReads    map[string]bool
	yieldVar       *types.Var
	litElems       map[string][]Term // literal sequences introduced by namedSeqLit (packed variadic arguments): their elements
	yieldAliases   map[*types.Var]bool // parameters of inlined helpers that were handed the yield function
	nondet         []string // sources of nondeterminism met while executing (for `functional`)
	panicStates    []panicExit // exceptional exits met while executing (see forkPanic)
	inlineStack    []string    // keys of /repo functions currently being executed inline
	modularLits    map[types.Object]*ast.FuncLit // local variables bound to literals with a `modular` contract
	inWrites       map[*ast.FuncLit]bool         // literals whose write set is being collected (recursion guard)
	keySorts       map[string]Sort // sort of every heap key ever read or written (frame obligations for keys that were only havocked)
	curState       *State
	localOnly      map[types.Object]bool
	allocTerms     map[string]bool
	epochAlloc     map[int]Term    // per heap epoch: the allocation set bounding what its field arrays reference
	stores         map[string]storeInfo // field arrays built by writeField (by term): the array and cell stored into
	framedLits     map[*ast.FuncLit]bool // literals returned by a function with a `preserves` frame: the frame is proved on them too
	dryRun         int // >0 while a loop body is executed only to summarise it (autoIterInvariant)
}

func (fv *FuncVerifier) note(format string, args ...any) {
	s := fmt.Sprintf(format, args...)
	for _, n := range fv.notes {
		if n == s {
			return
		}
	}
	fv.notes = append(fv.notes, s)
}

func (fv *FuncVerifier) fresh(hint string, sort Sort) Term {
	fv.nfresh++
	name := fmt.Sprintf("%s!%d", sanitize(hint), fv.nfresh)
	fv.consts[name] = sort
	return Term{name, sort}
}

func (fv *FuncVerifier) pos(p token.Pos) string {
	if !p.IsValid() {
		return ""
	}
	pp := fv.prog.Fset.Position(p)
	return fmt.Sprintf("%s:%d", relPath(fv.prog.RepoDir, pp.Filename), pp.Line)
}

// oblige records an obligation: under st.pc and env.guards, goal must hold.
func (fv *FuncVerifier) oblige(st *State, env *Env, class, kind string, goal Term, site token.Pos, desc string) {
	if env != nil && env.spec {
		return
	}
	if goal.S == "true" {
		return
	}
	assume := append([]Term(nil), st.pc...)
	if env != nil {
		assume = append(assume, env.guards...)
	}
	fv.obls = append(fv.obls, &Obligation{Func: fv.fn.Key, Class: class, Kind: kind, Site: site, Pos: fv.pos(site),
		Assume: assume, Goal: goal, Desc: desc, consts: fv.consts})
	// later obligations on this path may rely on this one (it is checked separately)
	if env != nil && len(env.guards) > 0 {
		st.Assume(Implies(And(env.guards...), goal))
	} else {
		st.Assume(goal)
	}
}

// ---- types -> sorts ----

func isExternalOpaque(n *types.Named) bool {
	if n.Obj().Pkg() == nil {
		return false
	}
	return !strings.HasPrefix(n.Obj().Pkg().Path(), repoModule)
}

func (fv *FuncVerifier) sortOf(t types.Type) Sort { return sortOfType(fv.w, t) }

func sortOfType(w *World, t types.Type) Sort {
	switch x := t.(type) {
	case *types.Alias:
		return sortOfType(w, types.Unalias(x))
	case *types.Named:
		if isExternalOpaque(x) {
			// external struct values are opaque references, except a few plain-data structs
			if st, ok := x.Underlying().(*types.Struct); ok {
				full := x.Obj().Pkg().Path() + "." + x.Obj().Name()
				allExported := st.NumFields() > 0
				for i := 0; i < st.NumFields(); i++ {
					if !st.Field(i).Exported() {
						allExported = false
					}
				}
				if full == "go/token.Position" || (allExported && (full == "mvdan.cc/gofumpt/format.Options")) {
					return structSortOf(w, full, st)
				}
				return SRef
			}
		}
		if st, ok := x.Underlying().(*types.Struct); ok {
			name := x.Obj().Name()
			if x.Obj().Pkg() != nil && !strings.HasPrefix(name, "spec_") {
				name = relPkg(x.Obj().Pkg().Path()) + "." + name
			}
			return structSortOf(w, name, st)
		}
		return sortOfType(w, x.Underlying())
	case *types.Basic:
		switch {
		case x.Info()&types.IsBoolean != 0:
			return SBool
		case x.Info()&types.IsInteger != 0:
			return SInt
		case x.Info()&types.IsString != 0:
			return w.SeqSort(SInt)
		case x.Info()&types.IsFloat != 0:
			return SReal
		case x.Kind() == types.UntypedNil:
			return SRef
		}
		return SRef
	case *types.Pointer, *types.Interface, *types.Signature, *types.Chan, *types.TypeParam:
		return SRef
	case *types.Slice:
		return w.SeqSort(sortOfType(w, x.Elem()))
	case *types.Array:
		return w.SeqSort(sortOfType(w, x.Elem()))
	case *types.Map:
		return w.MapSort(sortOfType(w, x.Key()), sortOfType(w, x.Elem()))
	case *types.Struct:
		return structSortOf(w, "anon"+strconv.Itoa(x.NumFields()), x)
	case *types.Tuple:
		if x.Len() == 1 {
			return sortOfType(w, x.At(0).Type())
		}
		return SRef
	}
	return SRef
}

func structSortOf(w *World, name string, st *types.Struct) Sort {
	s := Sort("St_" + sanitize(name))
	if _, ok := w.structs[s]; ok {
		return s
	}
	var fields []structField
	for i := 0; i < st.NumFields(); i++ {
		f := st.Field(i)
		fields = append(fields, structField{f.Name(), sortOfType(w, f.Type())})
	}
	return w.StructSort(name, fields)
}

// zero value of a sort
func (fv *FuncVerifier) zero(s Sort) Term {
	w := fv.w
	switch {
	case s == SInt:
		return IntLit(0)
	case s == SBool:
		return False
	case s == SRef:
		return Null
	case s == SReal:
		return Term{"0.0", SReal}
	case w.IsSeq(s):
		return w.SeqEmpty(s)
	case w.IsMap(s):
		return w.MapNil(s)
	case w.IsStruct(s):
		var vals []Term
		for _, f := range w.structs[s] {
			vals = append(vals, fv.zero(f.Sort))
		}
		return w.StructMk(s, vals)
	}
	return fv.fresh("zero", s)
}

// typeInv returns facts every value of Go type t satisfies.
func (fv *FuncVerifier) typeInv(v Term, t types.Type) Term {
	switch x := t.Underlying().(type) {
	case *types.Basic:
		switch x.Kind() {
		case types.Uint8:
			return And(Le(IntLit(0), v), Le(v, IntLit(255)))
		case types.Int32:
			return And(Le(IntLit(-2147483648), v), Le(v, IntLit(2147483647)))
		case types.Uint, types.Uint16, types.Uint32, types.Uint64, types.Uintptr:
			return Le(IntLit(0), v)
		}
	case *types.Map:
		x2 := mapX(v.Sort)
		return T(SBool, "(=> (isnil_%s %s) (= (dom_%s %s) ((as const (Array %s Bool)) false)))", x2, v.S, x2, v.S, fv.w.mapKV[v.Sort][0])
	case *types.Pointer:
		if v.Sort == SRef {
			return T(SBool, "(=> (not (= %s null)) (= (dyn %s) %s))", v.S, v.S, fv.w.Tag(types.TypeString(t, nil)).S)
		}
	case *types.Interface:
		if _, named := t.(*types.Named); named && v.Sort == SRef && x.NumMethods() > 0 {
			name := fv.w.UFun("impl_"+sanitize(types.TypeString(t, nil)), []Sort{SInt}, SBool, "")
			return T(SBool, "(=> (not (= %s null)) (%s (dyn %s)))", v.S, name, v.S)
		}
	}
	return True
}

// elemInv: for sequences of bytes etc. (quantified) — used for string params
func (fv *FuncVerifier) seqElemInv(v Term, t types.Type) Term {
	var elem types.Type
	switch x := t.Underlying().(type) {
	case *types.Basic:
		if x.Info()&types.IsString != 0 {
			elem = types.Typ[types.Uint8]
		}
	case *types.Slice:
		elem = x.Elem()
	case *types.Array:
		elem = x.Elem()
	}
	if elem == nil || !fv.w.IsSeq(v.Sort) {
		return True
	}
	i := Term{"i$", SInt}
	inv := fv.typeInv(fv.w.SeqAt(v, i), elem)
	if inv.S == "true" {
		return True
	}
	return T(SBool, "(forall ((i$ Int)) (! %s :pattern (%s)))", inv.S, fv.w.SeqAt(v, i).S)
}

// ---- heap ----

func (fv *FuncVerifier) heapGet(st *State, key string, sort Sort) Term {
	if fv.keySorts == nil {
		fv.keySorts = map[string]Sort{}
	}
	fv.keySorts[key] = sort
	if t, ok := st.heap[key]; ok {
		return t
	}
	if st.heapParams != nil {
		st.heapParams[key] = sort
		t := Term{"h$" + sanitize(key), sort}
		st.heap[key] = t
		return t
	}
	ver := st.epoch
	if len(st.havocs) > 0 {
		// the newest havoc that did not preserve this field decides
		ver = st.baseEpoch
		for _, h := range st.havocs {
			if !h.preserves(key) && h.epoch > ver {
				ver = h.epoch
			}
		}
	}
	if strings.HasPrefix(key, "$ghost:") {
		ver = 0 // ghost state is not touched by calls with unknown effects
	}
	if m, ok := st.hmark[key]; ok && m > ver {
		ver = m
	}
	name := fmt.Sprintf("H_%s@%d", sanitize(key), ver)
	fv.consts[name] = sort
	t := Term{name, sort}
	st.heap[key] = t
	return t
}

func fieldKey(recv types.Type, field string) string {
	t := recv
	if p, ok := t.Underlying().(*types.Pointer); ok {
		t = p.Elem()
	}
	if p, ok := t.(*types.Pointer); ok {
		t = p.Elem()
	}
	name := types.TypeString(t, func(p *types.Package) string { return relPkg(p.Path()) })
	keyOwner[name+"."+field] = types.TypeString(types.NewPointer(t), nil)
	return name + "." + field
}

// keyOwner: heap field key -> type string of the pointer type whose objects have that field.
var keyOwner = map[string]string{}

func (fv *FuncVerifier) readField(st *State, ref Term, key string, fsort Sort) Term {
	h := fv.heapGet(st, key, Sort(fmt.Sprintf("(Array Ref %s)", fsort)))
	v := App(fsort, "select", h, ref)
	if fsort == SRef && st.heapParams == nil && !strings.HasPrefix(key, "$") {
		if strings.Contains(v.S, "$") {
			// a read under a binder (quantified clause): make the closedness of the underlying array available
			fv.closedArray(st, h)
		} else {
			st.Assume(fv.closedRead(st, h, ref, v))
		}
	}
	return v
}

var lazyHeapName = regexp.MustCompile(`^H_[A-Za-z0-9_]+@(\d+)$`)

type storeInfo struct{ h, r Term }

// closedRead: the heap has no dangling references: what a pointer field holds is nil or allocated. For a cell that
// still has the content its field array had when the array's epoch began (function entry, or the return of a call
// with unknown effects) it was allocated ALREADY THEN - "nothing that existed before points to an object allocated
// later". A cell stored into since then only gets the weaker, current bound.
func (fv *FuncVerifier) closedRead(st *State, h, ref, v Term) Term {
	cur := fv.heapGet(st, "$ghost:alloc", "(Array Ref Bool)")
	var stored []Term
	base := h
	for {
		si, ok := fv.stores[base.S]
		if !ok {
			break
		}
		stored = append(stored, App(SBool, "=", ref, si.r))
		base = si.h
	}
	b, ok := fv.lazyBound(base)
	if !ok {
		return Or(App(SBool, "=", v, Null), App(SBool, "select", cur, v))
	}
	// (an object allocated after the epoch began - e.g. the fresh result of a callee - has its fields modelled by the
	// same array: only cells of objects that existed then carry the stronger bound)
	stored = append(stored, Not(App(SBool, "select", b, ref)))
	return Or(App(SBool, "=", v, Null), T(SBool, "(ite %s %s %s)", Or(stored...).S, App(SBool, "select", cur, v).S, App(SBool, "select", b, v).S))
}

func (fv *FuncVerifier) lazyBound(h Term) (Term, bool) {
	if m := lazyHeapName.FindStringSubmatch(h.S); m != nil {
		ver, _ := strconv.Atoi(m[1])
		a, ok := fv.epochAlloc[ver]
		return a, ok
	}
	return Term{}, false
}

// closedArray: the quantified form of closedRead for the epoch-start array underneath h.
func (fv *FuncVerifier) closedArray(st *State, h Term) {
	base := h
	for {
		si, ok := fv.stores[base.S]
		if !ok {
			break
		}
		base = si.h
	}
	b, ok := fv.lazyBound(base)
	if !ok {
		return
	}
	ax := T(SBool, "(forall ((cr$ Ref)) (! (=> (select %[2]s cr$) (or (= (select %[1]s cr$) null) (select %[2]s (select %[1]s cr$)))) :pattern ((select %[1]s cr$))))", base.S, b.S)
	for _, t := range st.pc {
		if t.S == ax.S {
			return
		}
	}
	st.Assume(ax)
}

func (fv *FuncVerifier) writeField(st *State, ref Term, key string, fsort Sort, v Term) {
	h := fv.heapGet(st, key, Sort(fmt.Sprintf("(Array Ref %s)", fsort)))
	nh := App(h.Sort, "store", h, ref, v)
	st.heap[key] = nh
	if fsort == SRef && st.heapParams == nil && !strings.HasPrefix(key, "$") {
		if fv.stores == nil {
			fv.stores = map[string]storeInfo{}
		}
		fv.stores[nh.S] = storeInfo{h, ref}
	}
}

// havocAll forgets every heap value (a call with unknown effects).
func (fv *FuncVerifier) havocAll(st *State) { fv.havocAllExcept(st, "", nil) }

// havocAllExcept forgets the heap except ghost state and the fields whose key starts with keepPrefix (minus except).
func (fv *FuncVerifier) havocAllExcept(st *State, keepPrefix string, except []string) {
	fv.nfresh++
	old := st.heap
	ev := havocEvent{epoch: fv.nfresh, prefix: keepPrefix, except: except}
	if len(st.havocs) == 0 {
		st.baseEpoch = st.epoch
	}
	st.havocs = append(st.havocs, ev)
	st.epoch = fv.nfresh
	keep := map[string]Term{}
	for k, v := range st.heap {
		if strings.HasPrefix(k, "$ghost:") || ev.preserves(k) {
			keep[k] = v
		}
	}
	st.heap = keep
	fv.growAlloc(st)
	fv.noteEpochAlloc(st)
	for _, c := range st.stableCells {
		if v, ok := old[c.key]; ok {
			nh := fv.heapGet(st, c.key, v.Sort)
			st.Assume(App(SBool, "=", App("", "select", nh, c.ref), App("", "select", v, c.ref)))
		}
	}
	// objects that never escaped this function keep their state
	if len(st.protected) > 0 {
		var keys []string
		for k := range old {
			keys = append(keys, k)
		}
		sort.Strings(keys)
		for _, k := range keys {
			v := old[k]
			if strings.HasPrefix(k, "$ghost:") || !strings.HasPrefix(string(v.Sort), "(Array Ref ") {
				continue
			}
			nh := fv.heapGet(st, k, v.Sort)
			for _, r := range st.protected {
				st.Assume(App(SBool, "=", App("", "select", nh, r), App("", "select", v, r)))
			}
		}
	}
}

// growAlloc: code we do not see may have allocated: the set of allocated objects becomes an arbitrary superset.
func (fv *FuncVerifier) growAlloc(st *State) {
	if st.heapParams != nil {
		return
	}
	old := fv.heapGet(st, "$ghost:alloc", "(Array Ref Bool)")
	nw := fv.fresh("alloc", "(Array Ref Bool)")
	st.Assume(T(SBool, "(forall ((r$ Ref)) (! (=> (select %s r$) (select %s r$)) :pattern ((select %s r$)) :pattern ((select %s r$))))", old.S, nw.S, old.S, nw.S))
	st.Assume(Not(App(SBool, "select", nw, Null)))
	st.heap["$ghost:alloc"] = nw
}

// noteEpochAlloc records the allocation set that bounds what the field arrays of the current epoch may reference
// (recorded once, when the epoch begins: at the entry of the unit and right after every call with unknown effects).
func (fv *FuncVerifier) noteEpochAlloc(st *State) {
	if st.heapParams != nil {
		return
	}
	if fv.epochAlloc == nil {
		fv.epochAlloc = map[int]Term{}
	}
	if _, ok := fv.epochAlloc[st.epoch]; !ok {
		fv.epochAlloc[st.epoch] = fv.heapGet(st, "$ghost:alloc", "(Array Ref Bool)")
	}
}

// isLocalOnly: every use of the local variable v inside the function under verification is as the base of a
// selector (method receiver or field access): the object it refers to cannot escape through v.
func (fv *FuncVerifier) isLocalOnly(v types.Object) bool {
	if fv.localOnly == nil {
		fv.localOnly = map[types.Object]bool{}
	}
	if r, ok := fv.localOnly[v]; ok {
		return r
	}
	ok := true
	var stack []ast.Node
	// the uses that matter are those in the function that DECLARES v: the function under verification, or a helper
	// executed inline (whose variables have no uses at all in the caller's text)
	if v.Pos() < fv.fn.Decl.Pos() || v.Pos() >= fv.fn.Decl.End() {
		fv.localOnly[v] = false
		return false
	}
	ast.Inspect(fv.fn.Decl, func(n ast.Node) bool {
		if n == nil {
			stack = stack[:len(stack)-1]
			return true
		}
		if id, isId := n.(*ast.Ident); isId && fv.info.ObjectOf(id) == v {
			parent := stack[len(stack)-1]
			switch p := parent.(type) {
			case *ast.SelectorExpr:
				if p.X != id {
					ok = false
				}
			case *ast.AssignStmt:
				isLhs := false
				for _, l := range p.Lhs {
					if l == id {
						isLhs = true
					}
				}
				if !isLhs {
					ok = false
				}
			case *ast.ValueSpec:
				// declaration
			case *ast.ReturnStmt:
				// handed to the caller only when the function ends
			default:
				ok = false
			}
		}
		stack = append(stack, n)
		return true
	})
	fv.localOnly[v] = ok
	return ok
}

// maybeProtect records that variable o now refers to a fresh, non-escaping object.
func (fv *FuncVerifier) maybeProtect(st *State, o types.Object, v Term) {
	if v.Sort != SRef || !fv.allocTerms[v.S] || st.heapParams != nil {
		return
	}
	if _, isVar := o.(*types.Var); !isVar || !fv.isLocalOnly(o) {
		return
	}
	for _, p := range st.protected {
		if p.S == v.S {
			return
		}
	}
	st.protected = append(st.protected, v)
}

// ---- constants ----

func (fv *FuncVerifier) constTerm(v constant.Value, t types.Type) (Term, bool) {
	switch v.Kind() {
	case constant.Bool:
		return BoolLit(constant.BoolVal(v)), true
	case constant.Int:
		if i, ok := constant.Int64Val(v); ok {
			s := fv.sortOf(t)
			if s == SReal {
				return Term{fmt.Sprintf("%d.0", i), SReal}, true
			}
			return IntLit(i), true
		}
		// big constant
		return Term{v.ExactString(), SInt}, true
	case constant.String:
		return fv.w.StrLit(constant.StringVal(v)), true
	case constant.Float:
		f, _ := constant.Float64Val(v)
		return Term{strconv.FormatFloat(f, 'f', -1, 64), SReal}, true
	}
	return Term{}, false
}

// ---- expression evaluation ----

func (fv *FuncVerifier) typeOf(env *Env, e ast.Expr) types.Type {
	if tv, ok := env.info.Types[e]; ok && tv.Type != nil {
		return tv.Type
	}
	if id, ok := e.(*ast.Ident); ok {
		if o := env.info.ObjectOf(id); o != nil {
			return o.Type()
		}
	}
	return nil
}

func (fv *FuncVerifier) lookupVar(st *State, env *Env, o types.Object) (Term, bool) {
	if env.binds != nil {
		if t, ok := env.binds[o]; ok {
			return t, true
		}
	}
	if t, ok := st.vars[o]; ok {
		return t, true
	}
	return Term{}, false
}

func (fv *FuncVerifier) globalKey(o types.Object) string {
	p := ""
	if o.Pkg() != nil {
		p = relPkg(o.Pkg().Path())
	}
	return "$global:" + p + "." + o.Name()
}

// readGlobal reads a package-level variable. A /repo variable that is initialised where it is declared with a
// non-nil expression and never reassigned anywhere in /repo is a constant reference (assumption listed in evidence).
func (fv *FuncVerifier) readGlobal(st *State, o types.Object) Term {
	s := fv.sortOf(o.Type())
	if o.Pkg() != nil && strings.HasPrefix(o.Pkg().Path(), repoModule) && fv.globalReads != nil {
		if _, isFn := o.Type().Underlying().(*types.Signature); !isFn {
			fv.globalReads[relPkg(o.Pkg().Path())+"."+o.Name()] = true
		}
	}
	if s == SRef && o.Pkg() != nil && strings.HasPrefix(o.Pkg().Path(), repoModule) && fv.prog.StableGlobal(o) {
		name := fv.w.UFun("glob_"+sanitize(relPkg(o.Pkg().Path())+"."+o.Name()), nil, SRef, "")
		t := Term{name, SRef}
		if st.heapParams == nil {
			st.Assume(Not(App(SBool, "=", t, Null)))
			al := fv.heapGet(st, "$ghost:alloc", "(Array Ref Bool)")
			st.Assume(App(SBool, "select", al, t))
		}
		fv.externUsed["package-level variable "+relPkg(o.Pkg().Path())+"."+o.Name()+": initialised at declaration, never reassigned in /repo (syntactic check) => constant non-nil reference"] = true
		return t
	}
	return fv.heapGet(st, fv.globalKey(o), s)
}

// coerce adapts nil literals to the expected sort.
func (fv *FuncVerifier) coerce(t Term, s Sort) Term {
	if t.Sort == s {
		return t
	}
	if t.S == "null" {
		return fv.zero(s)
	}
	if t.Sort == SInt && s == SReal {
		return App(SReal, "to_real", t)
	}
	return t
}

func (fv *FuncVerifier) unsupported(st *State, env *Env, e ast.Node, what string, sort Sort) Term {
	fv.note("abstracted: %s at %s", what, fv.pos(e.Pos()))
	return fv.fresh("abs", sort)
}

func (fv *FuncVerifier) eval(st *State, env *Env, e ast.Expr) Term {
	// constants first
	if tv, ok := env.info.Types[e]; ok && tv.Value != nil {
		if t, ok := fv.constTerm(tv.Value, tv.Type); ok {
			return t
		}
	}
	w := fv.w
	switch x := e.(type) {
	case *ast.ParenExpr:
		return fv.eval(st, env, x.X)
	case *ast.BasicLit:
		switch x.Kind {
		case token.INT:
			n, _ := strconv.ParseInt(x.Value, 0, 64)
			return IntLit(n)
		case token.STRING:
			s, _ := strconv.Unquote(x.Value)
			return w.StrLit(s)
		case token.CHAR:
			r, _, _, _ := strconv.UnquoteChar(x.Value[1:len(x.Value)-1], '\'')
			return IntLit(int64(r))
		}
		return fv.unsupported(st, env, e, "literal "+x.Value, SReal)
	case *ast.Ident:
		if x.Name == "nil" {
			if o := env.info.ObjectOf(x); o == nil || o == types.Universe.Lookup("nil") {
				return Null
			}
		}
		if env.names != nil {
			if t, ok := env.names[x.Name]; ok {
				if o := env.info.ObjectOf(x); o == nil || env.binds[o].S == "" {
					if _, isVar := st.vars[o]; !isVar || o == nil {
						return t
					}
				}
			}
		}
		o := env.info.ObjectOf(x)
		if o == nil {
			return fv.unsupported(st, env, e, "unresolved identifier "+x.Name, SRef)
		}
		if t, ok := fv.lookupVar(st, env, o); ok {
			return t
		}
		switch ov := o.(type) {
		case *types.Var:
			if ov.Parent() == ov.Pkg().Scope() { // package-level variable
				return fv.readGlobal(st, o)
			}
			// variable not yet assigned (declared later / captured): give it an arbitrary value
			t := fv.fresh(x.Name, fv.sortOf(o.Type()))
			st.vars[o] = t
			return t
		case *types.Func:
			ft := Term{w.UFun("fn_"+sanitize(ov.FullName()), nil, SRef, ""), SRef}
			// a declared function used as a value is never nil
			st.Assume(Not(App(SBool, "=", ft, Null)))
			return ft
		case *types.Nil:
			return Null
		}
		return fv.unsupported(st, env, e, "identifier "+x.Name, fv.sortOf(o.Type()))
	case *ast.UnaryExpr:
		switch x.Op {
		case token.NOT:
			return Not(fv.eval(st, env, x.X))
		case token.SUB:
			return App(SInt, "-", fv.eval(st, env, x.X))
		case token.ADD:
			return fv.eval(st, env, x.X)
		case token.AND:
			return fv.evalAddr(st, env, x)
		}
		return fv.unsupported(st, env, e, "unary "+x.Op.String(), fv.sortOf(fv.typeOf(env, e)))
	case *ast.BinaryExpr:
		return fv.evalBinary(st, env, x)
	case *ast.CallExpr:
		rs := fv.evalCall(st, env, x)
		if len(rs) == 0 {
			return fv.unsupported(st, env, e, "void call used as value", SRef)
		}
		return rs[0]
	case *ast.IndexExpr:
		xt := fv.typeOf(env, x.X)
		if xt == nil {
			return fv.unsupported(st, env, e, "index of untyped", SRef)
		}
		if _, isSig := xt.Underlying().(*types.Signature); isSig { // generic instantiation
			return fv.eval(st, env, x.X)
		}
		base := fv.eval(st, env, x.X)
		if p, ok := xt.Underlying().(*types.Pointer); ok { // pointer to array
			_ = p
			return fv.unsupported(st, env, e, "index through pointer", fv.sortOf(fv.typeOf(env, e)))
		}
		idx := fv.eval(st, env, x.Index)
		switch {
		case w.IsSeq(base.Sort):
			fv.oblige(st, env, "S", "index", And(Le(IntLit(0), idx), Lt(idx, w.SeqLen(base))), x.Lbrack, "index in range")
			return w.SeqAt(base, idx)
		case w.IsMap(base.Sort):
			idx = fv.coerce(idx, w.mapKV[base.Sort][0])
			return w.MapGet(base, idx, fv.zero(w.mapKV[base.Sort][1]))
		}
		return fv.unsupported(st, env, e, "index expression", fv.sortOf(fv.typeOf(env, e)))
	case *ast.SliceExpr:
		base := fv.eval(st, env, x.X)
		if !w.IsSeq(base.Sort) {
			return fv.unsupported(st, env, e, "slice of non-sequence", fv.sortOf(fv.typeOf(env, e)))
		}
		lo := IntLit(0)
		hi := w.SeqLen(base)
		if x.Low != nil {
			lo = fv.eval(st, env, x.Low)
		}
		if x.High != nil {
			hi = fv.eval(st, env, x.High)
		}
		fv.oblige(st, env, "S", "slice", And(Le(IntLit(0), lo), Le(lo, hi), Le(hi, w.SeqLen(base))), x.Lbrack, "slice bounds in range")
		return w.SeqSub(base, lo, hi)
	case *ast.SelectorExpr:
		return fv.evalSelector(st, env, x)
	case *ast.StarExpr:
		p := fv.eval(st, env, x.X)
		fv.oblige(st, env, "S", "nilderef", Not(App(SBool, "=", p, Null)), x.Star, "pointer dereference of non-nil")
		et := fv.typeOf(env, e)
		s := fv.sortOf(et)
		if fv.w.IsStruct(s) {
			return fv.loadStruct(st, p, et)
		}
		return fv.readField(st, p, "$deref:"+string(s), s)
	case *ast.CompositeLit:
		return fv.evalComposite(st, env, x)
	case *ast.FuncLit:
		t := fv.fresh("closure", SRef)
		if st.clos == nil {
			st.clos = map[string]*Closure{}
		}
		st.clos[t.S] = &Closure{Lit: x, Info: env.info}
		st.Assume(Not(App(SBool, "=", t, Null)))
		return t
	case *ast.TypeAssertExpr:
		v := fv.eval(st, env, x.X)
		if x.Type == nil {
			return v
		}
		tt := fv.typeOf(env, x.Type)
		ok := fv.dynIs(v, tt)
		if fv.isReflectInterfaceCall(env, x.X) {
			// reflect.New(T).Interface(): the reflection result has the prototype's pointer type (assumed; listed)
			fv.externUsed["reflect: value.Interface().(T) on a reflect.New result succeeds (the new value has the prototype's type) — assumed"] = true
			st.Assume(ok)
		} else {
			fv.oblige(st, env, "S", "typeassert", ok, x.Lparen, "type assertion holds")
		}
		return fv.unboxAs(v, tt)
	case *ast.KeyValueExpr:
		return fv.eval(st, env, x.Value)
	}
	return fv.unsupported(st, env, e, fmt.Sprintf("expression %T", e), fv.sortOf(fv.typeOf(env, e)))
}

func (fv *FuncVerifier) isReflectInterfaceCall(env *Env, e ast.Expr) bool {
	call, ok := ast.Unparen(e).(*ast.CallExpr)
	if !ok {
		return false
	}
	if fn, ok := calleeOf(env.info, call).(*types.Func); ok {
		return fn.FullName() == "(reflect.Value).Interface"
	}
	return false
}

// dynIs: the dynamic type of interface value v is (or implements) t.
func (fv *FuncVerifier) dynIs(v Term, t types.Type) Term {
	if _, ok := t.Underlying().(*types.Interface); ok {
		if types.IsInterface(t) {
			name := fv.w.UFun("impl_"+sanitize(types.TypeString(t, nil)), []Sort{SInt}, SBool, "")
			return And(Not(App(SBool, "=", v, Null)), App(SBool, name, App(SInt, "dyn", v)))
		}
	}
	return App(SBool, "=", App(SInt, "dyn", v), fv.w.Tag(types.TypeString(t, nil)))
}

func (fv *FuncVerifier) unboxAs(v Term, t types.Type) Term {
	s := fv.sortOf(t)
	if s == SRef {
		return v
	}
	return fv.unboxT(v, t)
}

func (fv *FuncVerifier) boxName(t types.Type) string {
	x := sanitize(types.TypeString(t, nil))
	s := fv.sortOf(t)
	name := "boxt:" + x
	if _, ok := fv.w.defs[name]; !ok {
		text := fmt.Sprintf(`(declare-fun box_%[1]s (%[2]s) Ref)
(declare-fun unbox_%[1]s (Ref) %[2]s)
(assert (forall ((v %[2]s)) (! (and (= (unbox_%[1]s (box_%[1]s v)) v) (not (= (box_%[1]s v) null)) (= (dyn (box_%[1]s v)) %[3]s)) :pattern ((box_%[1]s v)))))
(assert (forall ((r Ref)) (! (=> (= (dyn r) %[3]s) (= (box_%[1]s (unbox_%[1]s r)) r)) :pattern ((unbox_%[1]s r)))))
`, x, s, fv.w.Tag(types.TypeString(t, nil)).S)
		fv.w.AddDef(name, []string{"box_" + x, "unbox_" + x}, text)
	}
	return x
}

func (fv *FuncVerifier) boxT(v Term, t types.Type) Term {
	if v.Sort == SRef {
		return v
	}
	return App(SRef, "box_"+fv.boxName(t), v)
}

func (fv *FuncVerifier) unboxT(v Term, t types.Type) Term {
	return App(fv.sortOf(t), "unbox_"+fv.boxName(t), v)
}

// convert adapts value v of static type from to static type to (interface boxing, nil coercion).
func (fv *FuncVerifier) convert(st *State, v Term, from, to types.Type) Term {
	if to == nil {
		return v
	}
	ts := fv.sortOf(to)
	if from == nil {
		return fv.coerce(v, ts)
	}
	if types.IsInterface(to) && !types.IsInterface(from) {
		if b, ok := from.(*types.Basic); ok && b.Kind() == types.UntypedNil {
			return Null
		}
		if v.Sort == SRef {
			if _, isPtr := from.Underlying().(*types.Pointer); isPtr {
				st.Assume(fv.typeInv(v, from))
			}
			if _, isStruct := from.Underlying().(*types.Struct); isStruct {
				// a struct VALUE (modelled as an opaque reference) boxed into an interface is never the nil interface
				st.Assume(Not(App(SBool, "=", v, Null)))
			}
			return v
		}
		ft := types.Default(from)
		return fv.boxT(v, ft)
	}
	return fv.coerce(v, ts)
}

func (fv *FuncVerifier) evalBinary(st *State, env *Env, x *ast.BinaryExpr) Term {
	w := fv.w
	switch x.Op {
	case token.LAND:
		a := fv.eval(st, env, x.X)
		b := fv.eval(st, env.with(a), x.Y)
		return And(a, b)
	case token.LOR:
		a := fv.eval(st, env, x.X)
		b := fv.eval(st, env.with(Not(a)), x.Y)
		return Or(a, b)
	}
	a := fv.eval(st, env, x.X)
	b := fv.eval(st, env, x.Y)
	ta, tb := fv.typeOf(env, x.X), fv.typeOf(env, x.Y)
	// nil / interface coercions
	if a.S == "null" && b.Sort != SRef {
		a = fv.zero(b.Sort)
	}
	if b.S == "null" && a.Sort != SRef {
		b = fv.zero(a.Sort)
	}
	if ta != nil && tb != nil {
		if types.IsInterface(ta) && !types.IsInterface(tb) && b.S != "null" {
			b = fv.convert(st, b, tb, ta)
		} else if types.IsInterface(tb) && !types.IsInterface(ta) && a.S != "null" {
			a = fv.convert(st, a, ta, tb)
		}
	}
	if a.Sort == SInt && b.Sort == SReal {
		a = App(SReal, "to_real", a)
	}
	if b.Sort == SInt && a.Sort == SReal {
		b = App(SReal, "to_real", b)
	}
	switch x.Op {
	case token.ADD:
		if w.IsSeq(a.Sort) {
			return w.SeqCat(a, b)
		}
		return App(a.Sort, "+", a, b)
	case token.SUB:
		return App(a.Sort, "-", a, b)
	case token.MUL:
		return App(a.Sort, "*", a, b)
	case token.QUO:
		if a.Sort == SInt {
			fv.oblige(st, env, "S", "divzero", Not(App(SBool, "=", b, IntLit(0))), x.OpPos, "division by non-zero")
			// Go truncates toward zero; SMT div floors: equal for non-negative operands
			return T(SInt, "(ite (and (>= %s 0) (> %s 0)) (div %s %s) (godiv %s %s))", a.S, b.S, a.S, b.S, a.S, b.S).use(w, "godiv")
		}
		return App(a.Sort, "/", a, b)
	case token.REM:
		fv.oblige(st, env, "S", "divzero", Not(App(SBool, "=", b, IntLit(0))), x.OpPos, "division by non-zero")
		return T(SInt, "(ite (and (>= %s 0) (> %s 0)) (mod %s %s) (gorem %s %s))", a.S, b.S, a.S, b.S, a.S, b.S).use(w, "godiv")
	case token.LSS:
		return App(SBool, "<", a, b)
	case token.LEQ:
		return App(SBool, "<=", a, b)
	case token.GTR:
		return App(SBool, ">", a, b)
	case token.GEQ:
		return App(SBool, ">=", a, b)
	case token.EQL, token.NEQ:
		var eq Term
		switch {
		case w.IsSeq(a.Sort):
			if x.Y != nil && isNilIdent(x.Y) || isNilIdent(x.X) {
				// slice == nil : uninterpreted predicate implying emptiness
				s := a
				if isNilIdent(x.X) {
					s = b
				}
				name := w.UFun("isnil_"+string(s.Sort), []Sort{s.Sort}, SBool,
					fmt.Sprintf("(assert (forall ((s %[1]s)) (! (=> (isnil_%[1]s s) (= (len_%[2]s s) 0)) :pattern ((isnil_%[1]s s)))))\n", s.Sort, seqX(s.Sort)))
				eq = App(SBool, name, s)
			} else {
				eq = w.SeqEq(a, b)
			}
		case w.IsMap(a.Sort):
			if isNilIdent(x.Y) {
				eq = w.MapIsNil(a)
			} else if isNilIdent(x.X) {
				eq = w.MapIsNil(b)
			} else {
				eq = App(SBool, "=", a, b)
			}
		default:
			eq = App(SBool, "=", a, b)
		}
		if x.Op == token.NEQ {
			return Not(eq)
		}
		return eq
	}
	return fv.unsupported(st, env, x, "binary "+x.Op.String(), fv.sortOf(fv.typeOf(env, x)))
}

func (t Term) use(w *World, def string) Term {
	if def == "godiv" {
		w.AddDef("godiv", []string{"godiv", "gorem"}, "(declare-fun godiv (Int Int) Int)\n(declare-fun gorem (Int Int) Int)\n")
	}
	return t
}

func isNilIdent(e ast.Expr) bool {
	id, ok := ast.Unparen(e).(*ast.Ident)
	return ok && id.Name == "nil"
}

// evalSelector handles qualified identifiers, field reads (values and through pointers), embedded promotion.
func (fv *FuncVerifier) evalSelector(st *State, env *Env, x *ast.SelectorExpr) Term {
	if sel, ok := env.info.Selections[x]; ok {
		switch sel.Kind() {
		case types.FieldVal:
			base := fv.eval(st, env, x.X)
			bt := fv.typeOf(env, x.X)
			return fv.walkFields(st, env, base, bt, sel.Index(), x.Sel.Pos())
		case types.MethodVal:
			// method value: a closure-like reference; remember receiver for range-over-method-value
			recv := fv.eval(st, env, x.X)
			t := fv.fresh("methval", SRef)
			if st.ghost == nil {
				st.ghost = map[string]Term{}
			}
			st.ghost["$methval:"+t.S] = recv
			st.ghost["$methname:"+t.S] = Term{S: sel.Obj().(*types.Func).FullName()}
			return t
		}
	}
	// qualified identifier
	o := env.info.ObjectOf(x.Sel)
	if o == nil {
		return fv.unsupported(st, env, x, "selector", SRef)
	}
	switch ov := o.(type) {
	case *types.Var:
		return fv.readGlobal(st, o)
	case *types.Func:
		return Term{fv.w.UFun("fn_"+sanitize(ov.FullName()), nil, SRef, ""), SRef}
	}
	return fv.unsupported(st, env, x, "selector "+x.Sel.Name, fv.sortOf(o.Type()))
}

// walkFields follows a field index path from base (static type bt).
func (fv *FuncVerifier) walkFields(st *State, env *Env, base Term, bt types.Type, path []int, site token.Pos) Term {
	cur := base
	ct := bt
	for _, idx := range path {
		var stt *types.Struct
		isPtr := false
		if p, ok := ct.Underlying().(*types.Pointer); ok {
			isPtr = true
			stt, _ = p.Elem().Underlying().(*types.Struct)
		} else {
			stt, _ = ct.Underlying().(*types.Struct)
		}
		if stt == nil {
			return fv.fresh("field", SRef)
		}
		f := stt.Field(idx)
		fs := fv.sortOf(f.Type())
		if isPtr {
			fv.oblige(st, env, "S", "nilderef", Not(App(SBool, "=", cur, Null)), site, "field access through non-nil pointer")
			cur = fv.readField(st, cur, fieldKey(ct, f.Name()), fs)
			if _, isMap := f.Type().Underlying().(*types.Map); isMap && !strings.Contains(cur.S, "$") {
				st.Assume(fv.typeInv(cur, f.Type()))
			}
		} else if fv.w.IsStruct(cur.Sort) {
			cur = fv.w.StructGet(cur, f.Name())
		} else {
			// opaque external struct value: observer function
			name := fv.w.UFun("fld_"+sanitize(fieldKey(ct, f.Name())), []Sort{cur.Sort}, fs, "")
			cur = App(fs, name, cur)
		}
		ct = f.Type()
	}
	return cur
}

// loadStruct reads all fields of *p as a struct value.
func (fv *FuncVerifier) loadStruct(st *State, p Term, t types.Type) Term {
	s := fv.sortOf(t)
	stt, _ := t.Underlying().(*types.Struct)
	if stt == nil || !fv.w.IsStruct(s) {
		return fv.fresh("deref", s)
	}
	var vals []Term
	pt := types.NewPointer(t)
	for i := 0; i < stt.NumFields(); i++ {
		f := stt.Field(i)
		vals = append(vals, fv.readField(st, p, fieldKey(pt, f.Name()), fv.sortOf(f.Type())))
	}
	return fv.w.StructMk(s, vals)
}

func (fv *FuncVerifier) storeStruct(st *State, p Term, t types.Type, v Term) {
	stt, _ := t.Underlying().(*types.Struct)
	if stt == nil || !fv.w.IsStruct(v.Sort) {
		return
	}
	pt := types.NewPointer(t)
	for i := 0; i < stt.NumFields(); i++ {
		f := stt.Field(i)
		fv.writeField(st, p, fieldKey(pt, f.Name()), fv.sortOf(f.Type()), fv.w.StructGet(v, f.Name()))
	}
}

// alloc returns a fresh non-nil reference of pointer type pt.
func (fv *FuncVerifier) alloc(st *State, pt types.Type, hint string) Term {
	r := fv.fresh(hint, SRef)
	st.Assume(Not(App(SBool, "=", r, Null)))
	st.Assume(App(SBool, "=", App(SInt, "dyn", r), fv.w.Tag(types.TypeString(pt, nil))))
	al := fv.heapGet(st, "$ghost:alloc", "(Array Ref Bool)")
	st.Assume(Not(App(SBool, "select", al, r)))
	st.heap["$ghost:alloc"] = App(al.Sort, "store", al, r, True)
	if fv.allocTerms == nil {
		fv.allocTerms = map[string]bool{}
	}
	fv.allocTerms[r.S] = true
	return r
}

func (fv *FuncVerifier) evalAddr(st *State, env *Env, x *ast.UnaryExpr) Term {
	switch y := ast.Unparen(x.X).(type) {
	case *ast.CompositeLit:
		t := fv.typeOf(env, y)
		pt := types.NewPointer(t)
		r := fv.alloc(st, pt, "new")
		if special := fv.specialAlloc(st, r, t); special {
			return r
		}
		v := fv.evalComposite(st, env, y)
		fv.storeStruct(st, r, t, v)
		return r
	case *ast.Ident:
		// &local : supported for ghost-content objects (Builder/Buffer), which are references already
		t := fv.typeOf(env, y)
		if isContentObject(t) {
			return fv.eval(st, env, y)
		}
	}
	if id, ok := ast.Unparen(x.X).(*ast.Ident); ok {
		// &local passed to a callee: the callee may overwrite the variable (handled by the extern that receives it)
		r := fv.fresh("addr_"+id.Name, SRef)
		st.Assume(Not(App(SBool, "=", r, Null)))
		return r
	}
	return fv.unsupported(st, env, x, "address-of", SRef)
}

func isContentObject(t types.Type) bool {
	if t == nil {
		return false
	}
	if p, ok := t.(*types.Pointer); ok {
		t = p.Elem()
	}
	n, ok := t.(*types.Named)
	if !ok || n.Obj().Pkg() == nil {
		return false
	}
	full := n.Obj().Pkg().Path() + "." + n.Obj().Name()
	return full == "strings.Builder" || full == "bytes.Buffer"
}

// panicExit: a point where called code may panic instead of returning (state after the callee's effects).
type panicExit struct {
	st   *State
	why  string
	site token.Pos
}

const contentKey = "$content"

// absKey: the ghost heap field holding the ABSTRACT STATE of a stateful object seen through a /repo interface
// (e.g. namer.ImportTracker): observers marked `stateful` are functions of it, mutators name it as `abs(x)` in assigns.
func absKey(t types.Type) string {
	if p, ok := t.(*types.Pointer); ok {
		t = p.Elem()
	}
	n, ok := types.Unalias(t).(*types.Named)
	if !ok || n.Obj().Pkg() == nil {
		return ""
	}
	if _, isI := n.Underlying().(*types.Interface); !isI {
		return ""
	}
	return relPkg(n.Obj().Pkg().Path()) + "." + n.Obj().Name() + ".$abs"
}

// specialAlloc initialises ghost state for library objects.
func (fv *FuncVerifier) specialAlloc(st *State, r Term, t types.Type) bool {
	if n, ok := t.(*types.Named); ok && n.Obj().Pkg() != nil && n.Obj().Pkg().Path() == "sync" && n.Obj().Name() == "Map" {
		sr := fv.w.SeqSort(SRef)
		fv.writeField(st, r, "$syncmap:keys", sr, fv.w.SeqEmpty(sr))
		fv.writeField(st, r, "$syncmap:vals", sr, fv.w.SeqEmpty(sr))
		return true
	}
	if isContentObject(t) {
		fv.writeField(st, r, contentKey, fv.w.SeqSort(SInt), fv.w.SeqEmpty(fv.w.SeqSort(SInt)))
		return true
	}
	return false
}

func (fv *FuncVerifier) evalComposite(st *State, env *Env, x *ast.CompositeLit) Term {
	t := fv.typeOf(env, x)
	w := fv.w
	s := fv.sortOf(t)
	switch u := t.Underlying().(type) {
	case *types.Slice, *types.Array:
		var et types.Type
		if sl, ok := u.(*types.Slice); ok {
			et = sl.Elem()
		} else {
			et = u.(*types.Array).Elem()
		}
		var elems []Term
		for _, el := range x.Elts {
			if _, ok := el.(*ast.KeyValueExpr); ok {
				return fv.unsupported(st, env, x, "keyed slice literal", s)
			}
			v := fv.eval(st, env, el)
			elems = append(elems, fv.convert(st, v, fv.typeOf(env, el), et))
		}
		return w.SeqLit(s, elems)
	case *types.Map:
		m := w.MapEmpty(s)
		for _, el := range x.Elts {
			kv := el.(*ast.KeyValueExpr)
			k := fv.convert(st, fv.eval(st, env, kv.Key), fv.typeOf(env, kv.Key), u.Key())
			v := fv.convert(st, fv.eval(st, env, kv.Value), fv.typeOf(env, kv.Value), u.Elem())
			m = w.MapPut(m, k, v)
		}
		return m
	case *types.Struct:
		if !w.IsStruct(s) {
			// opaque external struct (e.g. scanner.Scanner{}, sync.Map{})
			if n, ok := t.(*types.Named); ok && isContentObject(n) {
				r := fv.alloc(st, types.NewPointer(t), "obj")
				fv.specialAlloc(st, r, t)
				return r
			}
			if s == SRef {
				// an opaque library object held by value (sync.Map{}, scanner.Scanner{}): modelled as a fresh object
				r := fv.alloc(st, types.NewPointer(t), "obj")
				fv.specialAlloc(st, r, t)
				return r
			}
			return fv.fresh("ext", s)
		}
		vals := make([]Term, u.NumFields())
		for i := 0; i < u.NumFields(); i++ {
			vals[i] = fv.zero(fv.sortOf(u.Field(i).Type()))
		}
		for i, el := range x.Elts {
			if kv, ok := el.(*ast.KeyValueExpr); ok {
				name := kv.Key.(*ast.Ident).Name
				for j := 0; j < u.NumFields(); j++ {
					if u.Field(j).Name() == name {
						v := fv.eval(st, env, kv.Value)
						vals[j] = fv.convert(st, v, fv.typeOf(env, kv.Value), u.Field(j).Type())
					}
				}
			} else {
				v := fv.eval(st, env, el)
				vals[i] = fv.convert(st, v, fv.typeOf(env, el), u.Field(i).Type())
			}
		}
		return w.StructMk(s, vals)
	}
	return fv.unsupported(st, env, x, "composite literal", s)
}

// sortedObls names obligations structurally after generation.
func (fv *FuncVerifier) nameObligations() {
	type siteKey struct {
		class, kind string
	}
	sites := map[siteKey][]token.Pos{}
	for _, o := range fv.obls {
		if o.Name != "" {
			continue
		}
		k := siteKey{o.Class, o.Kind}
		found := false
		for _, p := range sites[k] {
			if p == o.Site {
				found = true
			}
		}
		if !found {
			sites[k] = append(sites[k], o.Site)
		}
	}
	for k := range sites {
		sort.Slice(sites[k], func(i, j int) bool { return sites[k][i] < sites[k][j] })
	}
	count := map[string]int{}
	for _, o := range fv.obls {
		if o.Name == "" {
			k := siteKey{o.Class, o.Kind}
			ord := 0
			for i, p := range sites[k] {
				if p == o.Site {
					ord = i
				}
			}
			o.Name = fmt.Sprintf("%s#%s.%s[%d]", fv.fn.Key, o.Class, o.Kind, ord)
		}
		count[o.Name]++
		o.PathIdx = count[o.Name]
	}
}
