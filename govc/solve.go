package main

import (
	"bytes"
	"context"
	"fmt"
	"os"
	"os/exec"
	"path/filepath"
	"strings"
	"sync"
	"time"
)

type solverSpec struct {
	name string
	cmd  func(file string, timeoutSec int, seed int) []string
	pre  func(seed int) string
}

var z3Opts = func(seed int) string {
	return fmt.Sprintf("(set-option :auto_config false)\n(set-option :smt.mbqi false)\n(set-option :smt.random_seed %d)\n(set-option :smt.qi.eager_threshold 100)\n", seed)
}

var solvers = []solverSpec{
	{"z3-new", func(f string, t, seed int) []string { return []string{"z3-new", fmt.Sprintf("-T:%d", t), f} }, z3Opts},
	{"z3", func(f string, t, seed int) []string { return []string{"z3", fmt.Sprintf("-T:%d", t), f} }, z3Opts},
	{"cvc5", func(f string, t, seed int) []string {
		return []string{"cvc5", fmt.Sprintf("--tlimit=%d", t*1000), fmt.Sprintf("--seed=%d", seed), "--lang=smt2", f}
	}, func(seed int) string { return "(set-logic ALL)\n" }},
	{"z3-new-mbqi", func(f string, t, seed int) []string { return []string{"z3-new", fmt.Sprintf("-T:%d", t), f} },
		func(seed int) string { return fmt.Sprintf("(set-option :smt.random_seed %d)\n", seed) }},
}

type solveResult struct {
	status  string
	solver  string
	seconds float64
	output  string
}

func runSolver(sp solverSpec, script string, dir string, id string, timeoutSec int, seed int) solveResult {
	return runSolverCtx(context.Background(), sp, script, dir, id, timeoutSec, seed)
}

func runSolverCtx(parent context.Context, sp solverSpec, script string, dir string, id string, timeoutSec int, seed int) solveResult {
	file := filepath.Join(dir, fmt.Sprintf("%s.%s.%d.smt2", id, sp.name, seed))
	full := sp.pre(seed) + script + "(check-sat)\n"
	if err := os.WriteFile(file, []byte(full), 0o644); err != nil {
		return solveResult{status: "error", solver: sp.name, output: err.Error()}
	}
	args := sp.cmd(file, timeoutSec, seed)
	ctx, cancel := context.WithTimeout(parent, time.Duration(timeoutSec+3)*time.Second)
	defer cancel()
	start := time.Now()
	cmd := exec.CommandContext(ctx, args[0], args[1:]...)
	var out bytes.Buffer
	cmd.Stdout = &out
	cmd.Stderr = &out
	_ = cmd.Run()
	el := time.Since(start).Seconds()
	text := strings.TrimSpace(out.String())
	first := strings.TrimSpace(firstLine(text))
	status := "error"
	switch {
	case first == "unsat":
		status = "unsat"
	case first == "sat":
		status = "sat"
	case first == "unknown":
		status = "unknown"
	case parent.Err() != nil:
		status = "cancelled"
	case first == "timeout" || strings.Contains(text, "timeout") || ctx.Err() != nil || strings.Contains(text, "interrupted"):
		status = "timeout"
	}
	return solveResult{status: status, solver: sp.name, seconds: el, output: text}
}

// Solve discharges one obligation: all portfolio members start together, the first `unsat` wins and the others
// are killed. Cover queries only need "not unsat".
func Solve(w *World, o *Obligation, dir string, timeoutSec int, seed int) {
	if o.Solver == "govc-determinism-analysis" || o.Solver == "ssa-frame" || o.Solver == "govc-analysis" {
		return // decided by an analysis back end, not by SMT
	}
	script := w.Render(o.consts, o.Assume, o.Goal, nil)
	id := sanitize(o.Name) + fmt.Sprintf("_p%d", o.PathIdx)
	if len(id) > 150 {
		id = id[:150]
	}
	if o.Cover {
		r := runSolver(solvers[0], script, dir, id, 3, seed)
		o.Status, o.Solver, o.Seconds, o.Output = r.status, r.solver, r.seconds, r.output
		return
	}
	// fast path: most obligations fall to z3-new within a fraction of a second
	start := time.Now()
	r := runSolver(solvers[0], script, dir, id, 1, seed)
	if r.status == "unsat" || r.status == "sat" || r.status == "error" {
		o.Status, o.Solver, o.Seconds, o.Output = r.status, r.solver, time.Since(start).Seconds(), r.output
		return
	}
	ctx, cancel := context.WithCancel(context.Background())
	defer cancel()
	type job struct {
		sp   solverSpec
		seed int
	}
	jobs := []job{{solvers[0], seed + 1}, {solvers[1], seed}, {solvers[2], seed}, {solvers[3], seed + 2}, {solvers[0], seed + 3}}
	ch := make(chan solveResult, len(jobs))
	for _, j := range jobs {
		j := j
		go func() { ch <- runSolverCtx(ctx, j.sp, script, dir, id, timeoutSec, j.seed) }()
	}
	final := solveResult{status: "unknown", solver: "portfolio"}
	var outputs []string
	for range jobs {
		rr := <-ch
		if rr.status == "cancelled" {
			continue
		}
		outputs = append(outputs, rr.solver+": "+firstLine(rr.output))
		if rr.status == "unsat" {
			final = rr
			cancel()
			break
		}
		if rr.status == "sat" {
			final = rr
		} else if final.status != "sat" && rr.status == "timeout" {
			final.status = "timeout"
		}
	}
	o.Status, o.Solver, o.Seconds = final.status, final.solver, time.Since(start).Seconds()
	o.Output = strings.Join(outputs, " | ")
}

func firstLine(s string) string {
	if i := strings.IndexByte(s, '\n'); i >= 0 {
		return s[:i]
	}
	return s
}

// SolveAll runs obligations on a worker pool.
func SolveAll(w *World, obls []*Obligation, dir string, timeoutSec int, seed int, workers int) {
	var wg sync.WaitGroup
	ch := make(chan *Obligation)
	for i := 0; i < workers; i++ {
		wg.Add(1)
		go func() {
			defer wg.Done()
			for o := range ch {
				Solve(w, o, dir, timeoutSec, seed)
			}
		}()
	}
	for _, o := range obls {
		ch <- o
	}
	close(ch)
	wg.Wait()
}
