package main

import (
	"regexp"
	"fmt"
	"go/ast"
	"go/token"
	"go/types"
	"strings"

	"golang.org/x/tools/go/types/typeutil"
)

const maxInlineDepth = 4

func (fv *FuncVerifier) evalArgs(st *State, env *Env, call *ast.CallExpr, sig *types.Signature) []Term {
	var out []Term
	np := 0
	if sig != nil {
		np = sig.Params().Len()
	}
	// f(g()) multi-value forwarding
	if len(call.Args) == 1 && np > 1 {
		if inner, ok := ast.Unparen(call.Args[0]).(*ast.CallExpr); ok {
			return fv.evalCall(st, env, inner)
		}
	}
	for i, a := range call.Args {
		v := fv.eval(st, env, a)
		if sig != nil {
			var pt types.Type
			if sig.Variadic() && i >= np-1 {
				if call.Ellipsis.IsValid() {
					pt = sig.Params().At(np - 1).Type()
				} else {
					pt = sig.Params().At(np - 1).Type().(*types.Slice).Elem()
				}
			} else if i < np {
				pt = sig.Params().At(i).Type()
			}
			v = fv.convert(st, v, fv.typeOf(env, a), pt)
		}
		out = append(out, v)
	}
	return out
}

// packVariadic folds the variadic tail of args into one sequence term.
func (fv *FuncVerifier) packVariadic(call *ast.CallExpr, sig *types.Signature, args []Term) []Term {
	if sig == nil || !sig.Variadic() || call.Ellipsis.IsValid() {
		return args
	}
	np := sig.Params().Len()
	if len(args) < np-1 {
		return args
	}
	st := fv.sortOf(sig.Params().At(np - 1).Type())
	tail := fv.w.SeqLit(st, args[np-1:])
	if fv.curState != nil && len(args[np-1:]) > 0 {
		tail = fv.namedSeqLit(fv.curState, st, args[np-1:])
	}
	return append(append([]Term(nil), args[:np-1]...), tail)
}

// namedSeqLit introduces a constant for a literal sequence together with its length and elements (ground index
// terms help the solver instantiate quantified facts about the sequence).
func (fv *FuncVerifier) namedSeqLit(st *State, seq Sort, elems []Term) Term {
	if st.heapParams != nil {
		return fv.w.SeqLit(seq, elems)
	}
	for _, e := range elems {
		if strings.Contains(e.S, "$") {
			return fv.w.SeqLit(seq, elems)
		}
	}
	c := fv.fresh("lit", seq)
	if fv.litElems == nil {
		fv.litElems = map[string][]Term{}
	}
	fv.litElems[c.S] = append([]Term(nil), elems...)
	st.Assume(App(SBool, "=", c, fv.w.SeqLit(seq, elems)))
	st.Assume(App(SBool, "=", fv.w.SeqLen(c), IntLit(int64(len(elems)))))
	for i, e := range elems {
		st.Assume(App(SBool, "=", fv.w.SeqAt(c, IntLit(int64(i))), e))
	}
	return c
}

func (fv *FuncVerifier) evalCall(st *State, env *Env, call *ast.CallExpr) []Term {
	w := fv.w
	fun := ast.Unparen(call.Fun)
	// conversion
	if tv, ok := env.info.Types[fun]; ok && tv.IsType() {
		return []Term{fv.evalConversion(st, env, call, tv.Type)}
	}
	// builtin
	if id, ok := fun.(*ast.Ident); ok {
		if b, ok := env.info.ObjectOf(id).(*types.Builtin); ok {
			return fv.evalBuiltin(st, env, call, b.Name())
		}
	}
	callee := typeutil.Callee(env.info, call)
	if fn, ok := callee.(*types.Func); ok {
		name := fn.Name()
		if isSpecName(name) && fn.Pkg() != nil && strings.HasPrefix(fn.Pkg().Path(), repoModule) {
			if r, ok := fv.specHelper(st, env, call, strings.ToLower(name[:1])+name[1:]); ok {
				return []Term{r}
			}
			return []Term{fv.specApp(st, env, call, fn)}
		}
		sig := fn.Type().(*types.Signature)
		if t := fv.typeOf(env, fun); t != nil { // instantiated signature of generic functions
			if s2, ok := t.Underlying().(*types.Signature); ok {
				sig = s2
			}
		}
		var recv Term
		hasRecv := false
		var recvType types.Type
		if sel, ok := fun.(*ast.SelectorExpr); ok {
			if s, ok := env.info.Selections[sel]; ok && s.Kind() == types.MethodVal {
				recv = fv.eval(st, env, sel.X)
				recvType = fv.typeOf(env, sel.X)
				// promoted methods through embedded fields
				if len(s.Index()) > 1 {
					if fv.prog.ByObj[fn.Origin()] != nil || fv.prog.IfaceContracts[ifaceKey(fn)] != nil {
						recv = fv.walkFields(st, env, recv, recvType, s.Index()[:len(s.Index())-1], sel.Sel.Pos())
						if r := fn.Type().(*types.Signature).Recv(); r != nil {
							recvType = r.Type()
						}
					}
				}
				hasRecv = true
			}
		}
		args := fv.evalArgs(st, env, call, sig)
		full := fn.FullName()
		if o := fn.Origin(); o != nil {
			full = o.FullName()
		}
		if hasRecv && types.IsInterface(recvType) {
			fv.oblige(st, env, "S", "nilcall", Not(App(SBool, "=", recv, Null)), call.Lparen, "method call on non-nil interface value")
		}
		if inPlaceSliceMutators[full] && !env.spec && len(call.Args) > 0 {
			fv.aliasMutateGuard(st, env, call, full, args)
		}
		if h, ok := externs[full]; ok {
			fv.externUsed[full] = true
			return h(fv, st, env, &CallCtx{call: call, fn: fn, sig: sig, recv: recv, hasRecv: hasRecv, recvType: recvType, args: args})
		}
		if fi, ok := fv.prog.ByObj[fn.Origin()]; ok {
			return fv.callRepoFunc(st, env, call, fi, sig, recv, hasRecv, args)
		}
		// interface method of /repo with a full (requires/assigns/ensures) contract: written on a `trusted` ghost wrapper
		// func iface_<Iface>_<Method>(self Iface, params...) results — ASSUMED for every implementation (implementations
		// in /repo are checked against it by lemma functions that call the real method)
		if hasRecv && types.IsInterface(recvType) {
			if wfi := fv.ifaceWrapper(fn); wfi != nil {
				fv.calleesUsed[ifaceKey(fn)+" (interface method: contract of the trusted wrapper "+wfi.Key+" ASSUMED for every implementation)"] = true
				return fv.callRepoFunc(st, env, call, wfi, wfi.Obj.Type().(*types.Signature), Term{}, false, append([]Term{recv}, args...))
			}
		}
		return fv.callUnknown(st, env, call, fn, sig, recv, hasRecv, args)
	}
	// call of a function value
	if id, ok := fun.(*ast.Ident); ok {
		if o := env.info.ObjectOf(id); o != nil {
			if v, ok := o.(*types.Var); ok && fv.isYieldParam(v) {
				return fv.callYield(st, env, call)
			}
		}
	}
	// local function variable bound once to a literal whose contract says `modular`: the call is replaced by the
	// literal's contract (precondition checked, what the literal writes havocked, postcondition assumed). This is how
	// a recursive local closure (var f func(..); f = func(..) { .. f(..) .. }) is verified: once, as a unit.
	if id, ok := fun.(*ast.Ident); ok && !env.spec {
		if lit := fv.modularLitOf(env.info.ObjectOf(id)); lit != nil {
			return fv.callLitModular(st, env, call, lit)
		}
	}
	// package-level function variable with an (assumed) contract
	{
		var vobj types.Object
		switch f := fun.(type) {
		case *ast.Ident:
			vobj = env.info.ObjectOf(f)
		case *ast.SelectorExpr:
			if _, isSel := env.info.Selections[f]; !isSel {
				vobj = env.info.ObjectOf(f.Sel)
			}
		}
		if vobj != nil {
			if vc := fv.prog.VarContracts[vobj]; vc != nil {
				fv.calleesUsed[vc.Key+" (package-level function value, contract ASSUMED)"] = true
				vsig, _ := vobj.Type().Underlying().(*types.Signature)
				args := fv.evalArgs(st, env, call, vsig)
				if vc.Has("pure", 0) {
					var sorts []Sort
					for _, a := range args {
						sorts = append(sorts, a.Sort)
					}
					var res []Term
					for i := 0; i < vsig.Results().Len(); i++ {
						rs := fv.sortOf(vsig.Results().At(i).Type())
						name := fmt.Sprintf("fnvar_%s_%d", sanitize(vc.Key), i)
						fv.w.UFun(name, sorts, rs, "")
						res = append(res, App(rs, name, args...))
					}
					return res
				}
				if !env.spec {
					fv.nondet = append(fv.nondet, "call of function variable "+vc.Key)
					fv.havocAll(st)
				}
				return fv.freshResults(st, vsig)
			}
		}
	}
	fval := fv.eval(st, env, fun)
	var sig *types.Signature
	if t := fv.typeOf(env, fun); t != nil {
		sig, _ = t.Underlying().(*types.Signature)
	}
	args := fv.evalArgs(st, env, call, sig)
	if cl, ok := st.clos[fval.S]; ok && !env.spec {
		return fv.inlineClosure(st, env, cl, fv.packVariadic(call, sig, args), call.Lparen)
	}
	fv.oblige(st, env, "S", "nilcall", Not(App(SBool, "=", fval, Null)), call.Lparen, "call of non-nil function value")
	// unknown function value: arbitrary effects and results
	if !env.spec {
		fv.nondet = append(fv.nondet, "call of unknown function value "+exprString(fun))
		fv.orderLeak("the function value "+exprString(fun)+" is called", call.Pos())
		fv.note("call of unknown function value %s at %s: heap havocked", exprString(fun), fv.pos(call.Pos()))
		if fv.fn.Contr != nil && fv.fn.Contr.Has("fnvalue-calllog", 0) {
			pfx, exc := preservesOf(fv.fn.Contr)
			fv.havocAllExcept(st, pfx, exc)
		} else {
			fv.havocAll(st)
		}
		fv.forkPanic(st, env, "callback "+exprString(fun)+" panics", call.Lparen)
	}
	var res []Term
	if sig != nil {
		for i := 0; i < sig.Results().Len(); i++ {
			r := fv.fresh("fvres", fv.sortOf(sig.Results().At(i).Type()))
			st.Assume(fv.typeInv(r, sig.Results().At(i).Type()))
			res = append(res, r)
		}
	}
	// ghost `fnres`: what the LAST call of an unknown function value (a callback parameter) answered, when it answers
	// with a bool ("go on" / "stop")
	if !env.spec && len(res) > 0 && res[0].Sort == SBool {
		st.ghost["fnres"] = res[0]
	}
	// `fnvalue-calllog K`: calls of unknown function values in this function are user callbacks, logged with kind K
	if !env.spec && fv.fn.Contr != nil {
		if cls := fv.fn.Contr.Get("fnvalue-calllog", 0, 0); len(cls) > 0 {
			kind := 0
			fmt.Sscanf(cls[0].Text, "%d", &kind)
			first, errT := Null, Null
			if len(args) > 0 && args[0].Sort == SRef {
				first = args[0]
			}
			if len(res) > 0 && res[len(res)-1].Sort == SRef {
				errT = res[len(res)-1]
			}
			fv.appendCall(st, kind, first, fval, errT)
		}
	}
	_ = w
	return res
}

// modularLitOf: the function literal a local variable is bound to (by its only assignment in the function under
// verification), if that literal's contract carries `modular`.
func (fv *FuncVerifier) modularLitOf(o types.Object) *ast.FuncLit {
	if o == nil || fv.fn == nil || fv.fn.Contr == nil || fv.fn.Decl == nil {
		return nil
	}
	if fv.modularLits == nil {
		fv.modularLits = map[types.Object]*ast.FuncLit{}
		count := map[types.Object]int{}
		info := fv.fn.Pkg.TypesInfo
		ast.Inspect(fv.fn.Decl, func(n ast.Node) bool {
			as, ok := n.(*ast.AssignStmt)
			if !ok || len(as.Lhs) != len(as.Rhs) {
				return true
			}
			for i, l := range as.Lhs {
				id, ok := l.(*ast.Ident)
				if !ok {
					continue
				}
				ob := info.ObjectOf(id)
				if ob == nil {
					continue
				}
				count[ob]++
				if lit, ok := ast.Unparen(as.Rhs[i]).(*ast.FuncLit); ok {
					fv.modularLits[ob] = lit
				}
			}
			return true
		})
		for ob, lit := range fv.modularLits {
			ord, known := fv.lits[lit]
			if count[ob] != 1 || !known || !fv.fn.Contr.Has("modular", ord) {
				delete(fv.modularLits, ob)
			}
		}
	}
	return fv.modularLits[o]
}

// callLitModular applies the contract of a local literal at a call through the variable it is bound to.
func (fv *FuncVerifier) callLitModular(st *State, env *Env, call *ast.CallExpr, lit *ast.FuncLit) []Term {
	info := fv.fn.Pkg.TypesInfo
	ord := fv.lits[lit]
	var sig *types.Signature
	if t, ok := info.Types[lit]; ok {
		sig, _ = t.Type.Underlying().(*types.Signature)
	}
	if sig == nil {
		sig = types.NewSignatureType(nil, nil, nil, nil, nil, false)
	}
	args := fv.evalArgs(st, env, call, sig)
	binds := map[types.Object]Term{}
	i := 0
	for _, f := range lit.Type.Params.List {
		for _, n := range f.Names {
			if o := info.Defs[n]; o != nil && i < len(args) {
				binds[o] = fv.coerce(args[i], fv.sortOf(o.Type()))
			}
			i++
		}
		if len(f.Names) == 0 {
			i++
		}
	}
	for _, rc := range fv.fn.Contr.Get("requires", 0, ord) {
		g := fv.evalLitClauseFor(fv.fn, ord, st, rc, binds, nil, st, binds)
		fv.obligeNamedAt(st, "F", fmt.Sprintf("lit-requires[lit%d,%d]", ord, rc.Ord), g, call.Lparen, "precondition of local closure (modular call): "+rc.Text)
		st.Assume(g)
	}
	pre := st.Clone()
	// what the literal writes, minus its own parameters and locals (each activation has its own)
	ws := &writeSet{vars: map[types.Object]bool{}, heap: map[string]bool{}}
	fv.collectWrites(&Env{info: info}, lit.Body, ws, 0)
	for o := range ws.vars {
		if o.Pos() >= lit.Pos() && o.Pos() < lit.End() {
			delete(ws.vars, o)
		}
	}
	fv.applyHavoc(st, ws)
	fv.growAlloc(st)
	res := fv.freshResults(st, sig)
	names := map[string]Term{}
	for k, r := range res {
		names[fmt.Sprintf("result%d", k)] = r
		if len(res) == 1 {
			names["result"] = r
		}
	}
	for _, ec := range fv.fn.Contr.Get("ensures", 0, ord) {
		st.Assume(fv.evalLitClauseFor(fv.fn, ord, st, ec, binds, names, pre, binds))
	}
	return res
}

// forkPanic records an exceptional exit: code we call here may panic instead of returning. The state (after the
// callee's effects) is kept; at the function's end its pending deferred calls run and the `onpanic` clauses of the
// function under verification are checked on it. Only done when that function has an `onpanic` clause.
func (fv *FuncVerifier) forkPanic(st *State, env *Env, why string, site token.Pos) {
	if env.spec || fv.curLit != 0 || fv.fn.Contr == nil || !fv.fn.Contr.Has("onpanic", 0) || st.heapParams != nil {
		return
	}
	ps := st.Clone()
	fv.panicStates = append(fv.panicStates, panicExit{st: ps, why: why, site: site})
}

// preservesOf reads `preserves <key prefix> except k1, k2` of a contract: the heap fields a call leaves untouched
// although its other effects are unknown.
func preservesOf(c *Contract) (string, []string) {
	if c == nil {
		return "", nil
	}
	cls := c.Get("preserves", 0, 0)
	if len(cls) == 0 {
		return "", nil
	}
	txt := cls[0].Text
	pfx := txt
	var exc []string
	if i := strings.Index(txt, " except "); i >= 0 {
		pfx = strings.TrimSpace(txt[:i])
		for _, e := range strings.Split(txt[i+len(" except "):], ",") {
			exc = append(exc, strings.TrimSpace(e))
		}
	}
	return strings.TrimSpace(pfx), exc
}

// assignsNothing: the contract promises `assigns nothing` and declares no effects on the ghost logs.
func assignsNothing(c *Contract) bool {
	if c.Has("effects", 0) {
		return false
	}
	cls := c.Get("assigns", 0, 0)
	if len(cls) == 0 {
		return false
	}
	for _, cl := range cls {
		if strings.TrimSpace(cl.Text) != "nothing" {
			return false
		}
	}
	return true
}

func isSpecName(n string) bool { return strings.HasPrefix(n, "spec_") || strings.HasPrefix(n, "Spec_") }

func exprString(e ast.Expr) string {
	switch x := e.(type) {
	case *ast.Ident:
		return x.Name
	case *ast.SelectorExpr:
		return exprString(x.X) + "." + x.Sel.Name
	case *ast.CallExpr:
		return exprString(x.Fun) + "(...)"
	case *ast.StarExpr:
		return "*" + exprString(x.X)
	case *ast.IndexExpr:
		return exprString(x.X) + "[...]"
	case *ast.ParenExpr:
		return "(" + exprString(x.X) + ")"
	}
	return fmt.Sprintf("%T", e)
}

func (fv *FuncVerifier) evalConversion(st *State, env *Env, call *ast.CallExpr, to types.Type) Term {
	arg := call.Args[0]
	v := fv.eval(st, env, arg)
	from := fv.typeOf(env, arg)
	ts := fv.sortOf(to)
	if from == nil {
		return fv.coerce(v, ts)
	}
	fu, tu := from.Underlying(), to.Underlying()
	isStr := func(t types.Type) bool { b, ok := t.(*types.Basic); return ok && b.Info()&types.IsString != 0 }
	isInt := func(t types.Type) bool { b, ok := t.(*types.Basic); return ok && b.Info()&types.IsInteger != 0 }
	elemKind := func(t types.Type) types.BasicKind {
		if s, ok := t.(*types.Slice); ok {
			if b, ok := s.Elem().Underlying().(*types.Basic); ok {
				return b.Kind()
			}
		}
		return types.Invalid
	}
	switch {
	case isStr(tu) && isInt(fu): // string(rune)
		return App(ts, fv.strFuncs("rune2str"), v)
	case isStr(tu) && elemKind(fu) == types.Int32: // string([]rune)
		return App(ts, fv.strFuncs("runes2str"), v)
	case elemKind(tu) == types.Int32 && isStr(fu): // []rune(string)
		return App(ts, fv.strFuncs("str2runes"), v)
	case isStr(tu) && elemKind(fu) == types.Uint8, elemKind(tu) == types.Uint8 && isStr(fu):
		return v
	case isInt(tu) && isInt(fu):
		// widening conversions are the identity; narrowing is not modelled (assumption: no overflow)
		return v
	}
	if types.IsInterface(to) {
		return fv.convert(st, v, from, to)
	}
	if v.Sort == ts {
		return v
	}
	return fv.coerce(v, ts)
}

// strFuncs declares the UTF-8 conversion functions with their (assumed) axioms.
func (fv *FuncVerifier) strFuncs(name string) string {
	fv.w.SeqSort(SInt)
	fv.w.AddDef("utf8", []string{"rune2str", "runes2str", "str2runes", "utf8valid", "runeat", "runew"}, `(declare-fun rune2str (Int) Seq_Int)
(declare-fun runes2str (Seq_Int) Seq_Int)
(declare-fun str2runes (Seq_Int) Seq_Int)
(declare-fun utf8valid (Seq_Int) Bool)
(declare-fun runeat (Seq_Int Int) Int)
(declare-fun runew (Seq_Int Int) Int)
(assert (forall ((c Int)) (! (and (>= (len_Int (rune2str c)) 1) (<= (len_Int (rune2str c)) 4) (=> (and (<= 0 c) (< c 128)) (and (= (len_Int (rune2str c)) 1) (= (at_Int (rune2str c) 0) c)))) :pattern ((rune2str c)))))
(assert (= (runes2str empty_Int) empty_Int))
(assert (= (str2runes empty_Int) empty_Int))
(assert (utf8valid empty_Int))
(assert (forall ((r Seq_Int)) (! (and (>= (len_Int (runes2str r)) (len_Int r)) (<= (len_Int (runes2str r)) (* 4 (len_Int r)))) :pattern ((runes2str r)))))
(assert (forall ((s Seq_Int)) (! (and (<= (len_Int (str2runes s)) (len_Int s)) (=> (> (len_Int s) 0) (> (len_Int (str2runes s)) 0))) :pattern ((str2runes s)))))
(assert (forall ((a Seq_Int) (b Seq_Int)) (! (= (runes2str (cat_Int a b)) (cat_Int (runes2str a) (runes2str b))) :pattern ((runes2str (cat_Int a b))))))
(assert (forall ((c Int)) (! (= (runes2str (unit_Int c)) (rune2str c)) :pattern ((runes2str (unit_Int c))))))
(assert (forall ((s Seq_Int)) (! (=> (utf8valid s) (= (runes2str (str2runes s)) s)) :pattern ((str2runes s)))))
(assert (forall ((s Seq_Int) (i Int)) (! (=> (and (<= 0 i) (< i (len_Int (str2runes s)))) (and (<= 0 (at_Int (str2runes s) i)) (<= (at_Int (str2runes s) i) 1114111))) :pattern ((at_Int (str2runes s) i)))))
`)
	return name
}

func (fv *FuncVerifier) evalBuiltin(st *State, env *Env, call *ast.CallExpr, name string) []Term {
	w := fv.w
	switch name {
	case "len", "cap":
		v := fv.eval(st, env, call.Args[0])
		switch {
		case w.IsSeq(v.Sort):
			return []Term{w.SeqLen(v)}
		case w.IsMap(v.Sort):
			return []Term{w.MapLen(v)}
		}
		return []Term{fv.unsupported(st, env, call, "len of "+string(v.Sort), SInt)}
	case "append":
		if a0, ok := ast.Unparen(call.Args[0]).(*ast.Ident); ok && !env.spec && st.resliced != nil {
			if rs, ok := st.resliced[env.info.ObjectOf(a0)]; ok {
				fv.oblige(st, env, "S", "alias-append", Ge(rs[1], fv.w.SeqLen(rs[0])), call.Lparen,
					"append to a reslice s[:k] of a slice this function does not own: k == len(s), otherwise the append overwrites elements other holders of s still see")
			}
		}
		s := fv.eval(st, env, call.Args[0])
		rt := fv.typeOf(env, call)
		if s.S == "null" || !w.IsSeq(s.Sort) {
			s = fv.zero(fv.sortOf(rt))
		}
		var et types.Type
		if sl, ok := rt.Underlying().(*types.Slice); ok {
			et = sl.Elem()
		}
		if call.Ellipsis.IsValid() {
			t := fv.eval(st, env, call.Args[1])
			t = fv.coerce(t, s.Sort)
			return []Term{w.SeqCat(s, t)}
		}
		for _, a := range call.Args[1:] {
			v := fv.eval(st, env, a)
			v = fv.convert(st, v, fv.typeOf(env, a), et)
			s = w.SeqCat(s, w.SeqUnit(s.Sort, v))
		}
		return []Term{s}
	case "make":
		t := fv.typeOf(env, call)
		s := fv.sortOf(t)
		switch t.Underlying().(type) {
		case *types.Map:
			return []Term{w.MapEmpty(s)}
		case *types.Slice:
			n := fv.eval(st, env, call.Args[1])
			fv.oblige(st, env, "S", "makelen", Le(IntLit(0), n), call.Lparen, "make with non-negative length")
			sl := t.Underlying().(*types.Slice)
			z := fv.zero(fv.sortOf(sl.Elem()))
			st.Assume(App(SBool, "=", Term{"zero_" + seqX(s), z.Sort}, z))
			return []Term{w.SeqMk(s, n)}
		}
		return []Term{fv.unsupported(st, env, call, "make", s)}
	case "new":
		t := fv.typeOf(env, call.Args[0])
		r := fv.alloc(st, types.NewPointer(t), "new")
		if !fv.specialAlloc(st, r, t) {
			s := fv.sortOf(t)
			if w.IsStruct(s) {
				fv.storeStruct(st, r, t, fv.zero(s))
			} else {
				fv.writeField(st, r, "$deref:"+string(s), s, fv.zero(s))
			}
		}
		return []Term{r}
	case "delete":
		if env.spec {
			return nil
		}
		m := fv.eval(st, env, call.Args[0])
		k := fv.eval(st, env, call.Args[1])
		fv.assignTo(st, env, call.Args[0], w.MapDel(m, fv.coerce(k, w.mapKV[m.Sort][0])), nil)
		return nil
	case "panic":
		fv.evalPanic(st, env, call)
		return nil
	case "copy":
		fv.note("abstracted: builtin copy at %s", fv.pos(call.Pos()))
		dst := fv.eval(st, env, call.Args[0])
		nv := fv.fresh("copied", dst.Sort)
		st.Assume(App(SBool, "=", w.SeqLen(nv), w.SeqLen(dst)))
		fv.assignTo(st, env, call.Args[0], nv, nil)
		return []Term{fv.fresh("ncopied", SInt)}
	case "min", "max":
		a := fv.eval(st, env, call.Args[0])
		for _, x := range call.Args[1:] {
			b := fv.eval(st, env, x)
			if name == "min" {
				a = Ite(Le(a, b), a, b)
			} else {
				a = Ite(Ge(a, b), a, b)
			}
		}
		return []Term{a}
	}
	return []Term{fv.unsupported(st, env, call, "builtin "+name, fv.sortOf(fv.typeOf(env, call)))}
}

// evalPanic: an explicit panic is an obligation "unreachable" unless the contract has a `panics` clause.
func (fv *FuncVerifier) evalPanic(st *State, env *Env, call *ast.CallExpr) {
	if env.spec {
		return
	}
	for _, a := range call.Args {
		fv.eval(st, env, a)
	}
	cls := fv.fn.Contr.Get("panics", 0, fv.curLit)
	if len(cls) == 0 {
		fv.oblige(st, env, "S", "panic", False, call.Lparen, "explicit panic is unreachable")
	} else {
		// reaching this panic must be allowed by the `panics` clause (evaluated on entry state)
		var conds []Term
		for _, cl := range cls {
			conds = append(conds, fv.evalClause(fv.entryFor(st), cl, fv.clausePos(cl), nil, nil))
		}
		fv.oblige(st, env, "F", "panics-allowed", Or(conds...), call.Lparen, "explicit panic only when the contract's `panics` condition holds")
	}
	st.Assume(False)
}

// ---- spec helpers ----

func (fv *FuncVerifier) specHelper(st *State, env *Env, call *ast.CallExpr, name string) (Term, bool) {
	w := fv.w
	switch name {
	case "spec_old":
		if env.old == nil {
			return fv.eval(st, env, call.Args[0]), true
		}
		e2 := *env
		e2.binds = env.oldBinds()
		e2.binds = rebindGhosts(e2.binds, env.gparams, env.old)
		n0 := len(env.old.pc)
		r := fv.eval(env.old, &e2, call.Args[0])
		// facts learnt while evaluating in the old state (e.g. the contract of a pure call) are facts of this path
		for _, f := range env.old.pc[n0:] {
			st.Assume(f)
		}
		return r, true
	case "spec_entry":
		if env.entry == nil {
			return fv.eval(st, env, call.Args[0]), true
		}
		e2 := *env
		e2.binds = rebindGhosts(env.binds, env.gparams, env.entry)
		n0 := len(env.entry.pc)
		r := fv.eval(env.entry, &e2, call.Args[0])
		for _, f := range env.entry.pc[n0:] {
			st.Assume(f)
		}
		return r, true
	case "spec_has":
		m := fv.eval(st, env, call.Args[0])
		k := fv.eval(st, env, call.Args[1])
		if !w.IsMap(m.Sort) {
			return fv.unsupported(st, env, call, "has on non-map", SBool), true
		}
		return w.MapHas(m, fv.coerce(k, w.mapKV[m.Sort][0])), true
	case "spec_elem":
		x := fv.eval(st, env, call.Args[0])
		sq := fv.eval(st, env, call.Args[1])
		if !w.IsSeq(sq.Sort) {
			return fv.unsupported(st, env, call, "elem on non-slice", SBool), true
		}
		return w.SeqIn(fv.coerce(x, w.elemOf[sq.Sort]), sq), true
	case "spec_implies":
		a := fv.eval(st, env, call.Args[0])
		b := fv.eval(st, env.with(a), call.Args[1])
		return Implies(a, b), true
	case "spec_eq":
		a := fv.eval(st, env, call.Args[0])
		b := fv.eval(st, env, call.Args[1])
		if a.S == "null" && b.Sort != SRef {
			a = fv.zero(b.Sort)
		}
		if b.S == "null" && a.Sort != SRef {
			b = fv.zero(a.Sort)
		}
		if w.IsSeq(a.Sort) {
			return w.SeqEq(a, b), true
		}
		return App(SBool, "=", a, b), true
	case "spec_iff":
		return App(SBool, "=", fv.eval(st, env, call.Args[0]), fv.eval(st, env, call.Args[1])), true
	case "spec_fresh":
		r := fv.eval(st, env, call.Args[0])
		src := st
		if env.old != nil {
			src = env.old
		}
		al := fv.heapGet(src, "$ghost:alloc", "(Array Ref Bool)")
		cur := fv.heapGet(st, "$ghost:alloc", "(Array Ref Bool)")
		return And(Not(App(SBool, "=", r, Null)), Not(App(SBool, "select", al, r)), App(SBool, "select", cur, r)), true
	case "spec_mapKeys", "spec_mapVals":
		mv := fv.eval(st, env, call.Args[0])
		key := "$syncmap:keys"
		if name == "spec_mapVals" {
			key = "$syncmap:vals"
		}
		return fv.readField(st, mv, key, fv.w.SeqSort(SRef)), true
	case "spec_callMark":
		return fv.heapGet(st, "$ghost:callmark", SInt), true
	case "spec_parsed":
		return fv.heapGet(st, "$ghost:parsed", "Seq_Int"), true
	case "spec_parsedName":
		return fv.heapGet(st, "$ghost:parsedName", "Seq_Int"), true
	case "spec_pipeline":
		return fv.heapGet(st, "$ghost:pipeline", fv.w.SeqSort("Seq_Int")), true
	case "spec_fx":
		return fv.ghostLog(st, "fx"), true
	case "spec_calls":
		return fv.ghostLog(st, "calls"), true
	case "spec_scanSrc":
		sv := fv.eval(st, env, call.Args[0])
		return fv.readField(st, sv, "$scan:src", "Seq_Int"), true
	case "spec_scanPos":
		sv := fv.eval(st, env, call.Args[0])
		return fv.readField(st, sv, "$scan:pos", SInt), true
	case "spec_written":
		wv := fv.eval(st, env, call.Args[0])
		return fv.readField(st, wv, contentKey, "Seq_Int"), true
	case "spec_yielded":
		it := fv.eval(st, env, call.Args[0])
		rt := fv.typeOf(env, call)
		return fv.yielded(it, fv.sortOf(rt)), true
	case "spec_sortedKeys":
		m := fv.eval(st, env, call.Args[0])
		if !w.IsMap(m.Sort) || w.mapKV[m.Sort][0] != "Seq_Int" {
			return fv.unsupported(st, env, call, "spec_sortedKeys of non string-keyed map", w.SeqSort("Seq_Int")), true
		}
		dom := App("(Array Seq_Int Bool)", "dom_"+mapX(m.Sort), m)
		return fv.sortedKeys(dom), true
	case "spec_assert":
		c := fv.eval(st, &Env{info: env.info, binds: env.binds, names: env.names, old: env.old, oldB: env.oldB, entry: env.entry, spec: true}, call.Args[0])
		fv.oblige(st, env, "F", "assert", c, call.Lparen, "ghost assertion (lemma)")
		return True, true
	case "spec_assume":
		c := fv.eval(st, &Env{info: env.info, binds: env.binds, names: env.names, old: env.old, oldB: env.oldB, entry: env.entry, spec: true}, call.Args[0])
		st.Assume(c)
		fv.note("assumed (spec_assume) at %s", fv.pos(call.Pos()))
		return True, true
	case "spec_existsIn", "spec_forallIn":
		lo := fv.eval(st, env, call.Args[0])
		hi := fv.eval(st, env, call.Args[1])
		lit, ok := ast.Unparen(call.Args[2]).(*ast.FuncLit)
		if !ok || len(lit.Body.List) != 1 || len(lit.Type.Params.List) != 1 || len(lit.Type.Params.List[0].Names) != 1 {
			return fv.unsupported(st, env, call, "bounded quantifier body", SBool), true
		}
		ret, ok := lit.Body.List[0].(*ast.ReturnStmt)
		if !ok || len(ret.Results) != 1 {
			return fv.unsupported(st, env, call, "bounded quantifier body", SBool), true
		}
		n := lit.Type.Params.List[0].Names[0]
		o := env.info.Defs[n]
		fv.nfresh++
		bn := fmt.Sprintf("%s$%d", sanitize(n.Name), fv.nfresh)
		bt := Term{bn, SInt}
		body := fv.eval(st, env.bind(o, bt), ret.Results[0])
		rng := And(Le(lo, bt), Lt(bt, hi))
		if name == "spec_existsIn" {
			return T(SBool, "(exists ((%s Int)) %s)", bn, And(rng, body).S), true
		}
		return T(SBool, "(forall ((%s Int)) %s)", bn, Implies(rng, body).S), true
	case "spec_zeroValue":
		r := fv.eval(st, env, call.Args[0])
		z := fv.heapGet(st, "$ghost:reflzero", "(Array Ref Bool)")
		return App(SBool, "select", z, r), true
	case "spec_existed":
		// the object already existed when the function (or literal) under verification was entered
		r := fv.eval(st, env, call.Args[0])
		src := fv.entry
		if env.old != nil {
			src = env.old
		}
		if src == nil {
			src = st
		}
		al := fv.heapGet(src, "$ghost:alloc", "(Array Ref Bool)")
		return App(SBool, "select", al, r), true
	case "spec_all", "spec_any":
		lit, ok := ast.Unparen(call.Args[0]).(*ast.FuncLit)
		if !ok || len(lit.Body.List) != 1 {
			return fv.unsupported(st, env, call, "quantifier body", SBool), true
		}
		ret, ok := lit.Body.List[0].(*ast.ReturnStmt)
		if !ok || len(ret.Results) != 1 {
			return fv.unsupported(st, env, call, "quantifier body", SBool), true
		}
		var binders []string
		e2 := env
		var invs []Term
		for _, f := range lit.Type.Params.List {
			for _, n := range f.Names {
				o := env.info.Defs[n]
				s := fv.sortOf(o.Type())
				fv.nfresh++
				bn := fmt.Sprintf("%s$%d", sanitize(n.Name), fv.nfresh)
				binders = append(binders, fmt.Sprintf("(%s %s)", bn, s))
				bt := Term{bn, s}
				e2 = e2.bind(o, bt)
				invs = append(invs, fv.typeInv(bt, o.Type()))
			}
		}
		body := fv.eval(st, e2, ret.Results[0])
		q := "forall"
		if name == "spec_any" {
			q = "exists"
			body = And(append(invs, body)...)
		} else {
			body = Implies(And(invs...), body)
		}
		return T(SBool, "(%s (%s) %s)", q, strings.Join(binders, " "), body.S), true
	}
	return Term{}, false
}

// rebindGhosts: inside old(...) / entry(...) ghost names denote their values in that earlier state.
func rebindGhosts(binds map[types.Object]Term, gparams map[string]types.Object, st *State) map[types.Object]Term {
	if len(gparams) == 0 || st == nil {
		return binds
	}
	m := make(map[types.Object]Term, len(binds))
	for k, v := range binds {
		m[k] = v
	}
	for n, o := range gparams {
		if t, ok := st.ghost[n]; ok {
			m[o] = t
		}
	}
	return m
}

func (e *Env) oldBinds() map[types.Object]Term {
	if e.oldB == nil {
		return e.binds
	}
	// pre-state values of parameters; quantifier binders etc. stay visible
	m := make(map[types.Object]Term, len(e.binds)+len(e.oldB))
	for k, v := range e.binds {
		m[k] = v
	}
	for k, v := range e.oldB {
		m[k] = v
	}
	return m
}

// ---- yield (iterator bodies verified as units) ----

func (fv *FuncVerifier) isYieldParam(v *types.Var) bool {
	return fv.yieldVar != nil && (v == fv.yieldVar || fv.yieldAliases[v])
}

// orderLeak records that something whose EFFECTS may matter happens inside a loop that runs in map order (`ordered`).
func (fv *FuncVerifier) orderLeak(what string, pos token.Pos) {
	if fv.mapRangeDepth > 0 && fv.dryRun == 0 {
		fv.orderLeaks = append(fv.orderLeaks, what+" inside a range over a map at "+fv.pos(pos))
	}
}

func (fv *FuncVerifier) callYield(st *State, env *Env, call *ast.CallExpr) []Term {
	fv.orderLeak("a value is yielded", call.Pos())
	w := fv.w
	stopped := st.ghost["stopped"]
	fv.oblige(st, env, "S", "yield-after-stop", Not(stopped), call.Lparen, "yield is not called again after it returned false")
	args := fv.evalArgs(st, env, call, nil)
	if len(args) >= 1 {
		out := st.ghost["out"]
		a := fv.coerce(args[0], w.elemOf[out.Sort])
		st.ghost["out"] = w.SeqCat(out, w.SeqUnit(out.Sort, a))
		if t, ok := st.ghost["outText"]; ok && a.Sort == t.Sort {
			st.ghost["outText"] = w.SeqCat(t, a)
		}
	}
	if len(args) >= 2 {
		out := st.ghost["out2"]
		st.ghost["out2"] = w.SeqCat(out, w.SeqUnit(out.Sort, fv.coerce(args[1], w.elemOf[out.Sort])))
	}
	r := fv.fresh("yield", SBool)
	st.ghost["stopped"] = Not(r)
	return []Term{r}
}

// ---- closures ----

// inlineClosure executes the body of a local function literal at the call site.
func (fv *FuncVerifier) inlineClosure(st *State, env *Env, cl *Closure, args []Term, site token.Pos) []Term {
	if fv.inlineDepth >= maxInlineDepth {
		fv.note("abstracted: closure inlining depth exceeded at %s", fv.pos(site))
		fv.havocAll(st)
		return fv.freshResults(st, fv.sigOfLit(cl))
	}
	fv.inlineDepth++
	defer func() { fv.inlineDepth-- }()
	sig := fv.sigOfLit(cl)
	i := 0
	for _, f := range cl.Lit.Type.Params.List {
		for _, n := range f.Names {
			if o := cl.Info.Defs[n]; o != nil && i < len(args) {
				st.vars[o] = fv.coerce(args[i], fv.sortOf(o.Type()))
			}
			i++
		}
		if len(f.Names) == 0 {
			i++
		}
	}
	// named results
	var resVars []*types.Var
	if cl.Lit.Type.Results != nil {
		for _, f := range cl.Lit.Type.Results.List {
			for _, n := range f.Names {
				if o, ok := cl.Info.Defs[n].(*types.Var); ok {
					st.vars[o] = fv.zero(fv.sortOf(o.Type()))
					resVars = append(resVars, o)
				}
			}
		}
	}
	if ord, ok := fv.lits[cl.Lit]; ok && fv.fn.Contr != nil {
		for _, rc := range fv.fn.Contr.Get("requires", 0, ord) {
			g := fv.evalClause(st, rc, cl.Lit.Body.Lbrace+1, nil, nil)
			fv.obligeNamedAt(st, "F", fmt.Sprintf("lit-requires[lit%d,%d]", ord, rc.Ord), g, site, "precondition of local closure: "+rc.Text)
			st.Assume(g)
		}
	}
	nres := sig.Results().Len()
	savedDefers := st.defers
	st.defers = nil
	cenv := &Env{info: cl.Info}
	outs := fv.execBlock(st, cenv, cl.Lit.Body.List)
	// merge all return/fallthrough outcomes into st using fresh result symbols
	res := make([]Term, nres)
	for i := 0; i < nres; i++ {
		res[i] = fv.fresh("ret", fv.sortOf(sig.Results().At(i).Type()))
	}
	var live []*State
	for _, o := range outs {
		switch o.kind {
		case okNormal, okReturn:
			s2 := o.st
			vals := o.results
			if o.kind == okNormal || (len(vals) == 0 && nres > 0) {
				vals = nil
				for _, rv := range resVars {
					vals = append(vals, s2.vars[rv])
				}
			}
			for i := 0; i < nres && i < len(vals); i++ {
				s2.Assume(App(SBool, "=", res[i], fv.coerce(vals[i], res[i].Sort)))
			}
			live = append(live, s2)
		case okPanic:
			// path ends
		default:
			fv.note("abstracted: break/continue escaping closure at %s", fv.pos(site))
		}
	}
	fv.joinInto(st, live)
	st.defers = savedDefers
	return res
}

// inlinable: an uncontracted /repo function small and simple enough to be executed inline at its call sites.
func (fv *FuncVerifier) inlinable(fi *FuncInfo) bool {
	if fi == nil || fi.Decl == nil || fi.Decl.Body == nil || fi.VarInit || fi.Obj == nil || fi == fv.fn || fv.inlineDepth >= maxInlineDepth-1 {
		return false
	}
	for _, k := range fv.inlineStack {
		if k == fi.Key {
			return false
		}
	}
	sig, _ := fi.Obj.Type().(*types.Signature)
	if sig == nil || sig.TypeParams().Len() > 0 || sig.RecvTypeParams().Len() > 0 {
		return false
	}
	n := 0
	ok := true
	ast.Inspect(fi.Decl.Body, func(x ast.Node) bool {
		switch x.(type) {
		case ast.Stmt:
			n++
		case *ast.FuncLit:
			// helper-local closures are fine, but keep things small
			n += 3
		}
		switch x.(type) {
		case *ast.GoStmt, *ast.SelectStmt, *ast.DeferStmt:
			ok = false
		}
		return true
	})
	return ok && n <= 60
}

// inlineRepoFunc executes the body of an uncontracted /repo function at the call site (parameters bound to the
// arguments, receiver included). Loops inside it have no invariants (their written variables are simply havocked).
func (fv *FuncVerifier) inlineRepoFunc(st *State, env *Env, call *ast.CallExpr, fi *FuncInfo, sig *types.Signature, recv Term, hasRecv bool, args []Term) []Term {
	fv.calleesUsed[fi.Key+" (no contract: body executed inline)"] = true
	fv.curState = st
	args = fv.packVariadic(call, sig, args)
	fv.curState = nil
	info := fi.Pkg.TypesInfo
	if fi.Decl.Recv != nil && hasRecv {
		for _, f := range fi.Decl.Recv.List {
			for _, n := range f.Names {
				if o := info.Defs[n]; o != nil {
					st.vars[o] = fv.coerce(recv, fv.sortOf(o.Type()))
				}
			}
		}
	}
	// an inlined helper that is handed the iterator's yield function calls THAT function: its parameter is an alias
	if fv.yieldVar != nil {
		k := 0
		for _, f := range fi.Decl.Type.Params.List {
			for _, n := range f.Names {
				if k < len(call.Args) {
					if id, ok := ast.Unparen(call.Args[k]).(*ast.Ident); ok {
						if av, ok := env.info.ObjectOf(id).(*types.Var); ok && fv.isYieldParam(av) {
							if pv, ok := info.Defs[n].(*types.Var); ok {
								if fv.yieldAliases == nil {
									fv.yieldAliases = map[*types.Var]bool{}
								}
								fv.yieldAliases[pv] = true
							}
						}
					}
				}
				k++
			}
			if len(f.Names) == 0 {
				k++
			}
		}
	}
	fv.inlineStack = append(fv.inlineStack, fi.Key)
	defer func() { fv.inlineStack = fv.inlineStack[:len(fv.inlineStack)-1] }()
	lit := &ast.FuncLit{Type: fi.Decl.Type, Body: fi.Decl.Body}
	res := fv.inlineClosure(st, env, &Closure{Lit: lit, Info: info, Sig: sig}, args, call.Lparen)
	// Go maps are references, and a slice parameter shares its backing array with the caller's slice: what the helper
	// stored into a map parameter, or into the ELEMENTS of a slice parameter, is visible to the caller
	hws := &writeSet{vars: map[types.Object]bool{}, heap: map[string]bool{}}
	fv.collectWrites(&Env{info: info}, fi.Decl.Body, hws, 1)
	i := 0
	for _, f := range fi.Decl.Type.Params.List {
		for _, n := range f.Names {
			if o := info.Defs[n]; o != nil && i < len(call.Args) {
				if _, isMap := o.Type().Underlying().(*types.Map); isMap && isLvalue(call.Args[i]) {
					if v, ok := st.vars[o]; ok {
						fv.assignTo(st, env, call.Args[i], v, nil)
					}
				}
				if _, isSl := o.Type().Underlying().(*types.Slice); isSl && isLvalue(call.Args[i]) && hws.vars[o] {
					if v, ok := st.vars[o]; ok && fv.w.IsSeq(v.Sort) {
						if hws.whole[o] {
							// the helper re-assigned its parameter (append / reslice): the caller keeps its length, its
							// elements may have been overwritten
							cur := fv.eval(st, env, call.Args[i])
							nv := fv.fresh("elems_"+o.Name(), v.Sort)
							st.Assume(App(SBool, "=", fv.w.SeqLen(nv), fv.w.SeqLen(cur)))
							st.Assume(fv.typeInv(nv, o.Type()))
							fv.assignTo(st, env, call.Args[i], nv, nil)
						} else {
							fv.assignTo(st, env, call.Args[i], v, nil)
						}
					}
				}
			}
			i++
		}
		if len(f.Names) == 0 {
			i++
		}
	}
	return res
}

func (fv *FuncVerifier) sigOfLit(cl *Closure) *types.Signature {
	if cl.Sig != nil {
		return cl.Sig
	}
	if t, ok := cl.Info.Types[cl.Lit]; ok {
		if s, ok := t.Type.Underlying().(*types.Signature); ok {
			return s
		}
	}
	if t := cl.Info.TypeOf(cl.Lit.Type); t != nil {
		if s, ok := t.Underlying().(*types.Signature); ok {
			return s
		}
	}
	return types.NewSignatureType(nil, nil, nil, nil, nil, false)
}

func (fv *FuncVerifier) freshResults(st *State, sig *types.Signature) []Term {
	var res []Term
	for i := 0; i < sig.Results().Len(); i++ {
		t := sig.Results().At(i).Type()
		r := fv.fresh("res", fv.sortOf(t))
		st.Assume(fv.typeInv(r, t))
		res = append(res, r)
	}
	return res
}

// joinInto merges several successor states into dst (in place): variables and heaps that differ become
// fresh symbols constrained per path; the path condition becomes the common prefix plus a disjunction.
func (fv *FuncVerifier) joinInto(dst *State, states []*State) {
	if len(states) == 0 {
		dst.Assume(False)
		return
	}
	if len(states) == 1 {
		*dst = *states[0]
		return
	}
	// common pc prefix
	prefix := states[0].pc
	for _, s := range states[1:] {
		n := 0
		for n < len(prefix) && n < len(s.pc) && prefix[n].S == s.pc[n].S {
			n++
		}
		prefix = prefix[:n]
	}
	merged := states[0].Clone()
	merged.pc = append([]Term(nil), prefix...)
	conds := make([][]Term, len(states))
	for i, s := range states {
		conds[i] = append([]Term(nil), s.pc[len(prefix):]...)
	}
	// variables
	keys := map[types.Object]bool{}
	for _, s := range states {
		for k := range s.vars {
			keys[k] = true
		}
	}
	for k := range keys {
		same := true
		first, ok0 := states[0].vars[k]
		for _, s := range states[1:] {
			if v, ok := s.vars[k]; !ok || !ok0 || v.S != first.S {
				same = false
			}
		}
		if same {
			continue
		}
		var srt Sort
		for _, s := range states {
			if v, ok := s.vars[k]; ok {
				srt = v.Sort
			}
		}
		nv := fv.fresh(k.Name()+"_j", srt)
		for i, s := range states {
			if v, ok := s.vars[k]; ok && v.Sort == srt {
				conds[i] = append(conds[i], App(SBool, "=", nv, v))
			}
		}
		merged.vars[k] = nv
	}
	// heaps
	hkeys := map[string]bool{}
	for _, s := range states {
		for k := range s.heap {
			hkeys[k] = true
		}
	}
	maxEpoch := 0
	sameEpoch := true
	for _, s := range states {
		if s.epoch != states[0].epoch {
			sameEpoch = false
		}
		if s.epoch > maxEpoch {
			maxEpoch = s.epoch
		}
	}
	if !sameEpoch {
		fv.nfresh++
		maxEpoch = fv.nfresh
	}
	merged.epoch = maxEpoch
	if !sameEpoch {
		// what do ALL havocs of ALL joined paths preserve?
		pfx, okAll := "", true
		var exc []string
		first := true
		for _, s := range states {
			for _, h := range s.havocs {
				if first {
					pfx, first = h.prefix, false
				} else if h.prefix != pfx {
					okAll = false
				}
				for _, e := range h.except {
					found := false
					for _, e2 := range exc {
						if e2 == e {
							found = true
						}
					}
					if !found {
						exc = append(exc, e)
					}
				}
			}
		}
		ev := havocEvent{epoch: maxEpoch}
		if okAll && !first {
			ev.prefix, ev.except = pfx, exc
		}
		base := states[0].baseEpoch
		merged.havocs = []havocEvent{ev}
		merged.baseEpoch = base
	}
	for k := range hkeys {
		same := sameEpoch
		first, ok0 := states[0].heap[k]
		for _, s := range states[1:] {
			if v, ok := s.heap[k]; ok != ok0 || (ok && v.S != first.S) {
				same = false
			}
		}
		if same {
			if !ok0 {
				delete(merged.heap, k)
			}
			continue
		}
		var srt Sort
		for _, s := range states {
			if v, ok := s.heap[k]; ok {
				srt = v.Sort
			}
		}
		nv := fv.fresh("Hj_"+k, srt)
		for i, s := range states {
			v := fv.heapGet(s, k, srt)
			conds[i] = append(conds[i], App(SBool, "=", nv, v))
		}
		merged.heap[k] = nv
	}
	// ghosts
	gkeys := map[string]bool{}
	for _, s := range states {
		for k := range s.ghost {
			gkeys[k] = true
		}
	}
	for k := range gkeys {
		same := true
		first, ok0 := states[0].ghost[k]
		for _, s := range states[1:] {
			if v, ok := s.ghost[k]; !ok || !ok0 || v.S != first.S {
				same = false
			}
		}
		if same || strings.HasPrefix(k, "$meth") {
			continue
		}
		var srt Sort
		for _, s := range states {
			if v, ok := s.ghost[k]; ok {
				srt = v.Sort
			}
		}
		nv := fv.fresh("g_"+k, srt)
		for i, s := range states {
			if v, ok := s.ghost[k]; ok {
				conds[i] = append(conds[i], App(SBool, "=", nv, v))
			}
		}
		merged.ghost[k] = nv
	}
	var disj []Term
	for _, c := range conds {
		disj = append(disj, And(c...))
	}
	merged.Assume(Or(disj...))
	// closures: union
	for _, s := range states {
		for k, v := range s.clos {
			if merged.clos == nil {
				merged.clos = map[string]*Closure{}
			}
			merged.clos[k] = v
		}
	}
	*dst = *merged
}

// ---- calls into /repo functions ----

func (fv *FuncVerifier) callRepoFunc(st *State, env *Env, call *ast.CallExpr, fi *FuncInfo, sig *types.Signature, recv Term, hasRecv bool, args []Term) []Term {
	c := fi.Contr
	fv.calleesUsed[fi.Key] = true
	if c == nil || !(c.Has("requires", 0) || c.Has("ensures", 0) || c.Has("pure", 0) || c.Has("assigns", 0) || c.Has("yields", 0) || c.Has("effects", 0) || c.Has("functional", 0) || returnedLit(fv, fi) > 0 && c.Has("yields", returnedLit(fv, fi))) {
		// no contract. A small, non-recursive helper is executed INLINE (its body is the real code: extracting a helper
		// from a function under contract then changes nothing for the proof); anything else has arbitrary effects.
		if c == nil && !env.spec && fv.inlinable(fi) {
			return fv.inlineRepoFunc(st, env, call, fi, sig, recv, hasRecv, args)
		}
		if !env.spec {
			fv.orderLeak("the uncontracted function "+fi.Key+" is called", call.Pos())
			fv.nondet = append(fv.nondet, "call of uncontracted "+fi.Key)
			fv.note("call of uncontracted %s at %s: heap and map arguments havocked", fi.Key, fv.pos(call.Pos()))
			fv.havocAll(st)
			fv.havocLogs(st)
			fv.havocMapArgs(st, env, call)
		}
		return fv.freshResults(st, sig)
	}
	if !env.spec && !isSpecName(fi.Obj.Name()) && !c.Has("pure", 0) && !c.Has("heapfree", 0) && !assignsNothing(c) {
		// a /repo function that may have effects (run user code, register imports, touch files), called from inside a
		// map-ordered loop: the order of those effects is map order
		fv.orderLeak("the function "+fi.Key+" (which may have effects) is called", call.Pos())
	}
	fv.curState = st
	args = fv.packVariadic(call, sig, args)
	fv.curState = nil
	// bind parameters
	binds := map[types.Object]Term{}
	var paramObjs []types.Object
	info := fi.Pkg.TypesInfo
	if fi.Decl.Recv != nil && hasRecv {
		for _, f := range fi.Decl.Recv.List {
			for _, n := range f.Names {
				if o := info.Defs[n]; o != nil {
					binds[o] = recv
				}
			}
		}
	}
	i := 0
	for _, f := range fi.Decl.Type.Params.List {
		for _, n := range f.Names {
			if o := info.Defs[n]; o != nil && i < len(args) {
				binds[o] = fv.coerce(args[i], fv.sortOf(o.Type()))
				paramObjs = append(paramObjs, o)
			}
			i++
		}
		if len(f.Names) == 0 {
			i++
		}
	}
	// requires
	for _, cl := range c.Get("requires", 0, 0) {
		g := fv.evalClauseFor(fi, st, cl, binds, nil, nil, nil)
		if !env.spec {
			fv.obligeNamed(st, env, "S", fmt.Sprintf("requires:%s[%d]", fi.Key, cl.Ord), g, call.Lparen, "precondition of "+fi.Key+": "+cl.Text)
		}
	}
	// termination of direct recursion: the callee's measure on the arguments is smaller than ours on entry
	if fi == fv.fn && !env.spec {
		for _, cl := range c.Get("decreases", 0, 0) {
			m1 := fv.evalClauseFor(fi, st, cl, binds, nil, nil, nil)
			m0 := fv.evalClauseFor(fi, fv.entry, cl, fv.entryParams, nil, nil, nil)
			fv.obligeNamedAt(st, "T", fmt.Sprintf("decreases[rec,%d]", cl.Ord), And(Lt(m1, m0), Le(IntLit(0), m0)), call.Lparen, "recursive call decreases the measure: "+cl.Text)
		}
	}
	pre := st.Clone()
	preBinds := binds
	// effects
	if !env.spec {
		if c.Has("pure", 0) {
			// nothing changes
		} else if as := c.Get("assigns", 0, 0); len(as) > 0 {
			postBinds := map[types.Object]Term{}
			for k, v := range binds {
				postBinds[k] = v
			}
			for _, cl := range as {
				fv.applyAssigns(st, env, fi, cl, call, binds, postBinds)
			}
			binds = postBinds
		} else {
			fv.havocAll(st)
			fv.havocMapArgs(st, env, call)
		}
		if c.Has("effects", 0) {
			fv.havocLogs(st)
		}
		// the callee may have allocated (fresh(result) in its contract refers to exactly this growth)
		if !c.Has("heapfree", 0) {
			fv.growAlloc(st)
		}
	}
	var res []Term
	if c.Has("functional", 0) {
		for i := 0; i < sig.Results().Len(); i++ {
			res = append(res, Term{Sort: fv.sortOf(sig.Results().At(i).Type())})
		}
	} else {
		res = fv.freshResults(st, sig)
	}
	if c.Has("functional", 0) {
		// result is a deterministic function of the arguments and the (unchanged) heap: same inputs, same result
		var ins []Term
		if hasRecv {
			ins = append(ins, recv)
		}
		ins = append(ins, args...)
		if !c.Has("heapfree", 0) {
			ins = append(ins, IntLit(int64(fv.heapVersion(st))))
		}
		var sorts []Sort
		for _, a := range ins {
			sorts = append(sorts, a.Sort)
		}
		for i := range res {
			name := fmt.Sprintf("fun_%s_%d", sanitize(fi.Key), i)
			fv.w.UFun(name, sorts, res[i].Sort, "")
			res[i] = App(res[i].Sort, name, ins...)
			if st.heapParams == nil && !strings.Contains(res[i].S, "$") {
				st.Assume(fv.typeInv(res[i], sig.Results().At(i).Type()))
			}
		}
	} else if !c.Has("pure", 0) || len(c.Get("ensures", 0, 0)) == 0 {
		// result not pinned down by determinism
	}
	// the callee may panic instead of returning: its effects happened, its `onpanic` clauses hold (no result)
	if onp := c.Get("onpanic", 0, 0); len(onp) > 0 && !env.spec && fv.curLit == 0 && fv.fn.Contr != nil && fv.fn.Contr.Has("onpanic", 0) && st.heapParams == nil {
		ps := st.Clone()
		for _, cl := range onp {
			ps.Assume(fv.evalClauseFor(fi, ps, cl, binds, nil, pre, preBinds))
		}
		fv.panicStates = append(fv.panicStates, panicExit{st: ps, why: fi.Key + " panics", site: call.Lparen})
	}
	names := map[string]Term{}
	fv.bindResultNames(fi, res, names, binds)
	for _, cl := range c.Get("ensures", 0, 0) {
		if mentionsInternalGhost(cl.Text) {
			continue // a claim about the callee's own execution (loop / callback ghosts): nothing a caller can use
		}
		g := fv.evalClauseFor(fi, st, cl, binds, names, pre, preBinds)
		st.Assume(g)
	}
	// `yields E` of the function (or of the iterator literal it returns) gives callers yielded(result) == E
	ylit := returnedLit(fv, fi)
	// postconditions of the returned iterator literal, read for a run to completion: out := yielded(result),
	// out2 := yielded2(result), stopped := false
	if ylit > 0 && len(res) == 1 && len(c.Get("ensures", 0, ylit)) > 0 {
		if lsig := litSignature(fi, ylit); lsig != nil && lsig.Params().Len() == 1 {
			if ys, ok := lsig.Params().At(0).Type().Underlying().(*types.Signature); ok {
				n2 := map[string]Term{"stopped": False}
				for k, v := range names {
					n2[k] = v
				}
				if ys.Params().Len() >= 1 {
					n2["out"] = fv.yielded(res[0], fv.w.SeqSort(fv.sortOf(ys.Params().At(0).Type())))
				}
				if ys.Params().Len() >= 2 {
					n2["out2"] = fv.yielded2(res[0], fv.w.SeqSort(fv.sortOf(ys.Params().At(1).Type())))
					st.Assume(App(SBool, "=", fv.w.SeqLen(n2["out"]), fv.w.SeqLen(n2["out2"])))
				}
				for _, cl := range c.Get("ensures", 0, ylit) {
					st.Assume(fv.evalLitClauseFor(fi, ylit, st, cl, binds, n2, pre, preBinds))
				}
			}
		}
	}
	for _, kind := range []string{"yields", "yields2"} {
		cls := c.Get(kind, 0, 0)
		if len(cls) == 0 && ylit > 0 {
			cls = c.Get(kind, 0, ylit)
		}
		for _, cl := range cls {
			if len(res) == 1 {
				e := fv.evalClauseFor(fi, st, cl, binds, names, pre, preBinds)
				if kind == "yields" {
					st.Assume(App(SBool, "=", fv.yielded(res[0], e.Sort), e))
				} else {
					st.Assume(App(SBool, "=", fv.yielded2(res[0], e.Sort), e))
				}
			}
		}
	}
	return res
}

// ghostLog returns the current ghost effect ("fx") or call ("calls") log.
func (fv *FuncVerifier) ghostLog(st *State, which string) Term {
	var es Sort
	if which == "fx" {
		es = fv.w.StructSort("spec_Effect", []structField{{"Kind", SInt}, {"Path", fv.w.SeqSort(SInt)}})
	} else {
		es = fv.w.StructSort("spec_Call", []structField{{"Kind", SInt}, {"Gen", SRef}, {"Obj", SRef}, {"Err", SRef}})
	}
	return fv.heapGet(st, "$ghost:"+which, fv.w.SeqSort(es))
}

func (fv *FuncVerifier) appendEffect(st *State, kind int, path Term) {
	log := fv.ghostLog(st, "fx")
	e := fv.w.StructMk(fv.w.elemOf[log.Sort], []Term{IntLit(int64(kind)), path})
	st.heap["$ghost:fx"] = fv.w.SeqCat(log, fv.w.SeqUnit(log.Sort, e))
}

func (fv *FuncVerifier) appendCall(st *State, kind int, gen, obj, err Term) {
	log := fv.ghostLog(st, "calls")
	e := fv.w.StructMk(fv.w.elemOf[log.Sort], []Term{IntLit(int64(kind)), gen, obj, err})
	st.heap["$ghost:calls"] = fv.w.SeqCat(log, fv.w.SeqUnit(log.Sort, e))
	// remember how many file-system effects had happened when user code last ran (ordering of the two logs)
	st.heap["$ghost:callmark"] = fv.w.SeqLen(fv.ghostLog(st, "fx"))
}

// havocLogs forgets the ghost logs (a /repo function without contract may perform any effect).
func (fv *FuncVerifier) havocLogs(st *State) {
	for _, k := range []string{"fx", "calls"} {
		old := fv.ghostLog(st, k)
		st.heap["$ghost:"+k] = fv.fresh("log_"+k, old.Sort)
	}
	st.heap["$ghost:callmark"] = fv.fresh("callmark", SInt)
}

// devirtualise: for an interface method call I.M(recv, args) == res, assume for every /repo type T that implements
// I and whose method T.M carries a pure contract: dyn(recv) == *T  ==>  (ensures of T.M)[result := res].
func (fv *FuncVerifier) devirtualise(st *State, ifn *types.Func, recv Term, args []Term, res []Term) {
	isig, _ := ifn.Type().(*types.Signature)
	if isig == nil || isig.Recv() == nil {
		return
	}
	iface, _ := isig.Recv().Type().Underlying().(*types.Interface)
	if iface == nil {
		return
	}
	for _, fi := range fv.prog.Funcs {
		if fi.Contr == nil || fi.Decl.Recv == nil || fi.Decl.Name.Name != ifn.Name() || !fi.Contr.Has("pure", 0) || !fi.Contr.Has("ensures", 0) {
			continue
		}
		msig := fi.Obj.Type().(*types.Signature)
		rt := msig.Recv().Type()
		if !types.Implements(rt, iface) {
			continue
		}
		if fi == fv.fn {
			continue
		}
		binds := map[types.Object]Term{}
		info := fi.Pkg.TypesInfo
		for _, f := range fi.Decl.Recv.List {
			for _, n := range f.Names {
				if o := info.Defs[n]; o != nil {
					binds[o] = recv
				}
			}
		}
		i := 0
		for _, f := range fi.Decl.Type.Params.List {
			for _, n := range f.Names {
				if o := info.Defs[n]; o != nil && i < len(args) {
					binds[o] = fv.coerce(args[i], fv.sortOf(o.Type()))
				}
				i++
			}
		}
		names := map[string]Term{}
		fv.bindResultNames(fi, res, names, binds)
		var ens []Term
		for _, cl := range fi.Contr.Get("ensures", 0, 0) {
			if mentionsInternalGhost(cl.Text) {
				continue
			}
			ens = append(ens, fv.evalClauseFor(fi, st, cl, binds, names, st, binds))
		}
		isT := App(SBool, "=", App(SInt, "dyn", recv), fv.w.Tag(types.TypeString(rt, nil)))
		st.Assume(Implies(isT, And(ens...)))
		fv.calleesUsed[fi.Key+" (devirtualised: interface call on a "+types.TypeString(rt, nil)+" returns what this proved contract says)"] = true
	}
}

// heapVersion identifies the current heap contents: it changes whenever any heap cell may have changed.
func (fv *FuncVerifier) heapVersion(st *State) int {
	// hash of (epoch, marks, syntactic heap terms)
	h := st.epoch * 1000003
	for k, v := range st.hmark {
		h += v*31 + len(k)
	}
	for k, v := range st.heap {
		if strings.HasPrefix(k, "$ghost:") || strings.HasPrefix(v.S, "H_") {
			continue // ghost state, or a field that was only read (its lazily named entry value)
		}
		x := 0
		for i := 0; i < len(v.S); i++ {
			x = x*131 + int(v.S[i])
		}
		h ^= x + len(k)*7919
	}
	if h < 0 {
		h = -h
	}
	return h % 1000000007
}

func (fv *FuncVerifier) obligeNamed(st *State, env *Env, class, kind string, goal Term, site token.Pos, desc string) {
	fv.oblige(st, env, class, kind, goal, site, desc)
}

func litByOrd(fi *FuncInfo, ord int) *ast.FuncLit {
	_, lits := numberLoopsAndLits(fi.Decl)
	for l, o := range lits {
		if o == ord {
			return l
		}
	}
	return nil
}

func litSignature(fi *FuncInfo, ord int) *types.Signature {
	l := litByOrd(fi, ord)
	if l == nil {
		return nil
	}
	if t, ok := fi.Pkg.TypesInfo.Types[l]; ok {
		s, _ := t.Type.Underlying().(*types.Signature)
		return s
	}
	return nil
}

// evalLitClauseFor evaluates a clause of callee fi's literal `ord` at a call site (ghost names supplied).
func (fv *FuncVerifier) evalLitClauseFor(fi *FuncInfo, ord int, st *State, cl *Clause, binds map[types.Object]Term, names map[string]Term, pre *State, preBinds map[types.Object]Term) Term {
	l := litByOrd(fi, ord)
	pos := l.Body.Lbrace + 1
	gt := ghostTypesFor(fi, l, fi.Pkg.TypesInfo)
	if lsig := litSignature(fi, ord); lsig != nil && lsig.Params().Len() == 1 {
		if ys, ok := lsig.Params().At(0).Type().Underlying().(*types.Signature); ok {
			if ys.Params().Len() >= 1 {
				gt["out"] = types.NewSlice(ys.Params().At(0).Type())
			}
			if ys.Params().Len() >= 2 {
				gt["out2"] = types.NewSlice(ys.Params().At(1).Type())
			}
			gt["stopped"] = types.Typ[types.Bool]
		}
	}
	cc := checkClause(fv.prog, fi, cl, pos, gt)
	if cc.err != nil {
		fv.bindErrors = append(fv.bindErrors, fmt.Sprintf("%s (%s of callee %s lit %d): %v", cl.Pos, cl.Kind, fi.Key, ord, cc.err))
		return fv.fresh("badclause", SBool)
	}
	env := &Env{info: cc.info, spec: true, old: pre, binds: map[types.Object]Term{}, oldB: preBinds}
	for k, v := range binds {
		env.binds[k] = v
	}
	for n, o := range cc.params {
		if t, ok := names[n]; ok {
			env.binds[o] = t
		}
	}
	return fv.eval(st, env, cc.expr)
}

// returnedLit: ordinal of the function literal that fi returns (its only `return func...`), 0 if none.
func returnedLit(fv *FuncVerifier, fi *FuncInfo) int {
	_, lits := numberLoopsAndLits(fi.Decl)
	found := 0
	for _, s := range fi.Decl.Body.List {
		if r, ok := s.(*ast.ReturnStmt); ok && len(r.Results) == 1 {
			if l, ok := ast.Unparen(r.Results[0]).(*ast.FuncLit); ok {
				found = lits[l]
			}
		}
	}
	return found
}

func (fv *FuncVerifier) yielded2(it Term, seq Sort) Term {
	name := fv.w.UFun("yielded2_"+string(seq), []Sort{SRef}, seq, "")
	return App(seq, name, it)
}

// yielded(it): the sequence of (first components of) values iterator `it` yields when run to completion.
func (fv *FuncVerifier) yielded(it Term, seq Sort) Term {
	name := fv.w.UFun("yielded_"+string(seq), []Sort{SRef}, seq, "")
	return App(seq, name, it)
}

func (fv *FuncVerifier) bindResultNames(fi *FuncInfo, res []Term, names map[string]Term, binds map[types.Object]Term) {
	info := fi.Pkg.TypesInfo
	if len(res) == 1 {
		names["result"] = res[0]
	}
	for i, r := range res {
		names[fmt.Sprintf("result%d", i)] = r
	}
	if fi.Decl.Type.Results != nil {
		i := 0
		for _, f := range fi.Decl.Type.Results.List {
			for _, n := range f.Names {
				if o := info.Defs[n]; o != nil && i < len(res) {
					binds[o] = res[i]
				}
				i++
			}
			if len(f.Names) == 0 {
				i++
			}
		}
	}
}

// havocMapArgs gives fresh values to map-typed lvalue arguments (maps are values in the model, references in Go).
func (fv *FuncVerifier) havocMapArgs(st *State, env *Env, call *ast.CallExpr) {
	exprs := append([]ast.Expr(nil), call.Args...)
	if sel, ok := ast.Unparen(call.Fun).(*ast.SelectorExpr); ok {
		if s, ok := env.info.Selections[sel]; ok && s.Kind() == types.MethodVal {
			exprs = append(exprs, sel.X)
		}
	}
	for _, a := range exprs {
		if u, ok := ast.Unparen(a).(*ast.UnaryExpr); ok && u.Op == token.AND {
			if id, ok := ast.Unparen(u.X).(*ast.Ident); ok {
				if t := fv.typeOf(env, id); t != nil && !isContentObject(t) {
					nv := fv.fresh("addrhavoc", fv.sortOf(t))
					st.Assume(fv.typeInv(nv, t))
					fv.assignTo(st, env, id, nv, nil)
				}
			}
		}
		t := fv.typeOf(env, a)
		if t == nil {
			continue
		}
		if _, ok := t.Underlying().(*types.Map); ok && isLvalue(a) {
			nv := fv.fresh("mhavoc", fv.sortOf(t))
			st.Assume(fv.typeInv(nv, t))
			fv.assignTo(st, env, a, nv, nil)
		}
		// a callee can overwrite the elements (not the length) of a slice argument
		if _, ok := t.Underlying().(*types.Slice); ok {
			la := ast.Unparen(a)
			if c, isConv := la.(*ast.CallExpr); isConv && len(c.Args) == 1 {
				if tv, ok := env.info.Types[c.Fun]; ok && tv.IsType() {
					la = ast.Unparen(c.Args[0])
				}
			}
			if isLvalue(la) {
				old := fv.eval(st, &Env{info: env.info, binds: env.binds, spec: true}, la)
				if fv.w.IsSeq(old.Sort) {
					nv := fv.fresh("shavoc", old.Sort)
					st.Assume(App(SBool, "=", fv.w.SeqLen(nv), fv.w.SeqLen(old)))
					fv.assignTo(st, env, la, nv, nil)
				}
			}
		}
	}
}

func isLvalue(e ast.Expr) bool {
	switch x := ast.Unparen(e).(type) {
	case *ast.Ident:
		return x.Name != "nil" && x.Name != "_"
	case *ast.SelectorExpr:
		return true
	case *ast.IndexExpr:
		return isLvalue(x.X)
	case *ast.StarExpr:
		return true
	}
	return false
}

// applyAssigns havocs the targets named in an `assigns` clause. Targets: a parameter name (map/value passed by
// reference), p.f (field of the object a pointer parameter refers to), `*` (everything), $global.
// evalPathIn evaluates a parameter path p.f.g of function fi (fields through pointers) in state st under binds.
func (fv *FuncVerifier) evalPathIn(fi *FuncInfo, st *State, path string, binds map[types.Object]Term) (Term, types.Type) {
	parts := strings.Split(strings.TrimSpace(path), ".")
	var pobj types.Object
	for o := range binds {
		if o.Name() == parts[0] {
			pobj = o
		}
	}
	if pobj == nil {
		return Term{}, nil
	}
	ref := binds[pobj]
	ct := pobj.Type()
	for k := 1; k < len(parts); k++ {
		p, ok := ct.Underlying().(*types.Pointer)
		if !ok {
			return Term{}, nil
		}
		stt, _ := p.Elem().Underlying().(*types.Struct)
		var fld *types.Var
		for j := 0; stt != nil && j < stt.NumFields(); j++ {
			if stt.Field(j).Name() == parts[k] {
				fld = stt.Field(j)
			}
		}
		if fld == nil {
			return Term{}, nil
		}
		ref = fv.readField(st, ref, fieldKey(ct, fld.Name()), fv.sortOf(fld.Type()))
		ct = fld.Type()
	}
	return ref, ct
}

func (fv *FuncVerifier) applyAssigns(st *State, env *Env, fi *FuncInfo, cl *Clause, call *ast.CallExpr, binds, postBinds map[types.Object]Term) {
	info := fi.Pkg.TypesInfo
	for _, tgt := range splitTopLevel(cl.Text, ',') {
		tgt = strings.TrimSpace(tgt)
		if tgt == "" || tgt == "nothing" {
			continue
		}
		if tgt == "*" {
			pfx, exc := preservesOf(fi.Contr)
			fv.havocAllExcept(st, pfx, exc)
			fv.havocMapArgs(st, env, call)
			continue
		}
		isContent := false
		if strings.HasPrefix(tgt, "content(") && strings.HasSuffix(tgt, ")") {
			isContent = true
			tgt = tgt[len("content(") : len(tgt)-1]
		}
		if strings.HasPrefix(tgt, "abs(") && strings.HasSuffix(tgt, ")") {
			// abstract state of a stateful interface object: evaluate the path in the pre-state, havoc its $abs cell
			ex := tgt[len("abs(") : len(tgt)-1]
			ref, t := fv.evalPathIn(fi, st, ex, binds)
			if k := absKey(t); k != "" && ref.Sort == SRef {
				fv.writeField(st, ref, k, "Abs", fv.fresh("abs_post", "Abs"))
			} else {
				fv.note("assigns target %q of %s not understood: everything havocked", tgt, fi.Key)
				fv.havocAll(st)
			}
			continue
		}
		parts := strings.Split(tgt, ".")
		// find the parameter object
		var pobj types.Object
		for o := range binds {
			if o.Name() == parts[0] {
				pobj = o
			}
		}
		if pobj == nil {
			fv.note("assigns target %q of %s not understood: everything havocked", tgt, fi.Key)
			fv.havocAll(st)
			continue
		}
		if len(parts) == 1 && isContent {
			fv.writeField(st, binds[pobj], contentKey, "Seq_Int", fv.fresh("content_post", "Seq_Int"))
			continue
		}
		if len(parts) == 1 {
			// the argument itself is updated: find the caller's argument expression
			nv := fv.fresh(parts[0]+"_post", binds[pobj].Sort)
			st.Assume(fv.typeInv(nv, pobj.Type()))
			postBinds[pobj] = nv
			if ae := fv.argExprFor(fi, info, call, pobj, env); ae != nil && isLvalue(ae) {
				fv.assignTo(st, env, ae, nv, nil)
			}
			continue
		}
		// field path through pointers
		ref := binds[pobj]
		ct := pobj.Type()
		for k := 1; k < len(parts); k++ {
			var stt *types.Struct
			if p, ok := ct.Underlying().(*types.Pointer); ok {
				stt, _ = p.Elem().Underlying().(*types.Struct)
			}
			if stt == nil {
				fv.note("assigns target %q of %s: not a pointer-to-struct path; everything havocked", tgt, fi.Key)
				fv.havocAll(st)
				break
			}
			var fld *types.Var
			for j := 0; j < stt.NumFields(); j++ {
				if stt.Field(j).Name() == parts[k] {
					fld = stt.Field(j)
				}
			}
			if fld == nil {
				fv.note("assigns target %q of %s: no field %s", tgt, fi.Key, parts[k])
				fv.havocAll(st)
				break
			}
			fs := fv.sortOf(fld.Type())
			key := fieldKey(ct, fld.Name())
			if k == len(parts)-1 && isContent {
				obj := fv.readField(st, ref, key, fs)
				fv.writeField(st, obj, contentKey, "Seq_Int", fv.fresh("content_post", "Seq_Int"))
			} else if k == len(parts)-1 {
				nv := fv.fresh(parts[k]+"_post", fs)
				st.Assume(fv.typeInv(nv, fld.Type()))
				fv.writeField(st, ref, key, fs, nv)
			} else {
				ref = fv.readField(st, ref, key, fs)
				ct = fld.Type()
			}
		}
	}
}

func (fv *FuncVerifier) argExprFor(fi *FuncInfo, info *types.Info, call *ast.CallExpr, pobj types.Object, env *Env) ast.Expr {
	if fi.Decl.Recv != nil {
		for _, f := range fi.Decl.Recv.List {
			for _, n := range f.Names {
				if info.Defs[n] == pobj {
					if sel, ok := ast.Unparen(call.Fun).(*ast.SelectorExpr); ok {
						return sel.X
					}
				}
			}
		}
	}
	i := 0
	for _, f := range fi.Decl.Type.Params.List {
		for _, n := range f.Names {
			if info.Defs[n] == pobj && i < len(call.Args) {
				return call.Args[i]
			}
			i++
		}
	}
	return nil
}

// pureExt / pureExtN: the uninterpreted function that stands for result i of the pure external function `full` applied
// to (receiver, arguments) - the same symbol callUnknown uses, so extern handlers can speak about other observers.
func (fv *FuncVerifier) pureExt(full string, rs Sort, all ...Term) Term { return fv.pureExtN(full, 0, rs, all...) }

func (fv *FuncVerifier) pureExtN(full string, i int, rs Sort, all ...Term) Term {
	var sorts []Sort
	for _, a := range all {
		sorts = append(sorts, a.Sort)
	}
	name := fmt.Sprintf("ext_%s_%d", sanitize(full), i)
	for _, s := range sorts {
		name += "_" + sanitize(string(s))[:min(6, len(sanitize(string(s))))]
	}
	fv.w.UFun(name, sorts, rs, "")
	return App(rs, name, all...)
}

// callUnknown handles functions outside /repo without an extern handler.
func (fv *FuncVerifier) callUnknown(st *State, env *Env, call *ast.CallExpr, fn *types.Func, sig *types.Signature, recv Term, hasRecv bool, args []Term) []Term {
	full := fn.FullName()
	if o := fn.Origin(); o != nil {
		full = o.FullName()
	}
	pkgPath := ""
	if fn.Pkg() != nil {
		pkgPath = fn.Pkg().Path()
	}
	if pkgPath == "go/ast" && hasRecv && (fn.Name() == "Pos" || fn.Name() == "End") {
		// Pos / End of a syntax node: one observer, whether it is called on the concrete node type or through ast.Node
		// (dynamic dispatch reaches the same method) - so a helper taking ast.Node proves what the direct call proved
		full = "(go/ast.Node)." + fn.Name()
	}
	policy := externPolicy(pkgPath, full)
	if fv.mapRangeDepth > 0 && !strings.HasPrefix(pkgPath, repoModule) {
		// a function value (an iterator, a callback) that is not a literal handed to code outside /repo may be run there
		for _, a := range call.Args {
			if _, isLit := ast.Unparen(a).(*ast.FuncLit); isLit {
				continue
			}
			if at := env.info.TypeOf(a); at != nil {
				if _, isSig := at.Underlying().(*types.Signature); isSig {
					fv.orderLeak("the function value "+exprString(a)+" is handed to "+full, call.Pos())
				}
			}
		}
	}
	// interface methods declared in /repo may carry a contract (pure / assigns / ensures on result)
	if hasRecv && strings.HasPrefix(pkgPath, repoModule) {
		if ic := fv.prog.IfaceContracts[ifaceKey(fn)]; ic != nil {
			fv.calleesUsed[ic.Key+" (interface method, contract ASSUMED for every implementation)"] = true
			if ic.Has("pure", 0) {
				policy = "pure"
			}
			if cls := ic.Get("calllog", 0, 0); len(cls) > 0 && !env.spec {
				// user code invoked by the framework: arbitrary heap effects, NO file-system effects (assumed),
				// recorded in the ghost call log together with the error it returned
				kind := 0
				fmt.Sscanf(cls[0].Text, "%d", &kind)
				fv.nondet = append(fv.nondet, "user code "+ic.Key)
				fv.orderLeak("user code "+ic.Key+" is called", call.Pos())
				pfx, exc := preservesOf(ic)
				fv.havocAllExcept(st, pfx, exc)
				fv.forkPanic(st, env, "user code "+ic.Key+" panics", call.Lparen)
				res := fv.freshResults(st, sig)
				obj := Null
				if len(args) > 1 {
					obj = args[1]
				} else if len(args) == 1 && args[0].Sort == SRef {
					obj = args[0] // one-argument methods (SnippetWriter.Render): the argument is the object of the call
				}
				errT := Null
				if len(res) > 0 && res[len(res)-1].Sort == SRef {
					errT = res[len(res)-1]
				}
				fv.appendCall(st, kind, recv, obj, errT)
				return res
			}
		}
	}
	switch policy {
	case "pure":
		defer func() {
			// devirtualisation: if the receiver's dynamic type is a /repo type whose method has a proved pure contract,
			// the interface call returns what that contract says (Go dispatch semantics)
		}()
		// deterministic observer: uninterpreted function of receiver and arguments
		if !strings.HasPrefix(pkgPath, repoModule) {
			fv.externUsed[full+" (assumed pure, uninterpreted)"] = true
		}
		all := args
		if hasRecv {
			all = append([]Term{recv}, args...)
			if ic := fv.prog.IfaceContracts[ifaceKey(fn)]; ic != nil && ic.Has("stateful", 0) {
				// observer of a stateful object: also a function of the object's abstract state (a ghost heap field)
				if isig, _ := fn.Type().(*types.Signature); isig != nil && isig.Recv() != nil {
					if k := absKey(isig.Recv().Type()); k != "" {
						all = append([]Term{recv, fv.readField(st, recv, k, "Abs")}, args...)
					}
				}
			}
		}
		var sorts []Sort
		for _, a := range all {
			sorts = append(sorts, a.Sort)
		}
		var res []Term
		for i := 0; i < sig.Results().Len(); i++ {
			rs := fv.sortOf(sig.Results().At(i).Type())
			r := fv.pureExtN(full, i, rs, all...)
			if !strings.Contains(r.S, "$") {
				st.Assume(fv.typeInv(r, sig.Results().At(i).Type()))
			}
			res = append(res, r)
		}
		if hasRecv && strings.HasPrefix(pkgPath, repoModule) && st.heapParams == nil && !strings.Contains(recv.S, "$") {
			fv.devirtualise(st, fn, recv, args, res)
		}
		return res
	case "drop":
		fv.dropped[full] = true
		if sig.Results().Len() > 0 {
			fv.nondet = append(fv.nondet, "result of dropped call "+full)
		}
		res := fv.freshResults(st, sig)
		for i, r := range res {
			// logging / context helpers hand back usable (non-nil) objects — assumption of the drop policy
			if r.Sort == SRef && !types.Identical(sig.Results().At(i).Type(), types.Universe.Lookup("error").Type()) {
				st.Assume(Not(App(SBool, "=", r, Null)))
			}
		}
		return res
	}
	if !env.spec {
		fv.nondet = append(fv.nondet, "call of unknown external "+full)
		fv.note("call of unknown external %s at %s: heap and map arguments havocked", full, fv.pos(call.Pos()))
		fv.externUsed[full+" (unknown: havoc)"] = true
		if ic := fv.prog.IfaceContracts[ifaceKey(fn)]; ic != nil && hasRecv && strings.HasPrefix(pkgPath, repoModule) {
			pfx, exc := preservesOf(ic)
			pre := fv.heapGet(st, "$ghost:alloc", "(Array Ref Bool)")
			fv.havocAllExcept(st, pfx, exc)
			fv.forkPanic(st, env, "user code "+ic.Key+" panics", call.Lparen)
			if ic.Has("fresh-result", 0) {
				// ASSUMED contract of user code: the (first) result is a non-nil object allocated by the call
				res := fv.freshResults(st, sig)
				if len(res) > 0 && res[0].Sort == SRef {
					cur := fv.heapGet(st, "$ghost:alloc", "(Array Ref Bool)")
					st.Assume(And(Not(App(SBool, "=", res[0], Null)), Not(App(SBool, "select", pre, res[0])), App(SBool, "select", cur, res[0])))
				}
				for _, a := range call.Args {
					if lit, ok := ast.Unparen(a).(*ast.FuncLit); ok {
						fv.havocWrites(st, env, lit.Body)
					}
				}
				return res
			}
		} else {
			fv.havocAll(st)
		}
		fv.havocMapArgs(st, env, call)
		// closures passed as arguments may run: havoc what they write
		for _, a := range call.Args {
			if lit, ok := ast.Unparen(a).(*ast.FuncLit); ok {
				fv.havocWrites(st, env, lit.Body)
			}
		}
	}
	return fv.freshResults(st, sig)
}

// inPlaceSliceMutators: standard-library functions that rearrange or overwrite the elements of their slice argument
// in its backing array.
var inPlaceSliceMutators = map[string]bool{
	"slices.Insert": true, "slices.Delete": true, "slices.DeleteFunc": true, "slices.Compact": true, "slices.CompactFunc": true,
	"slices.Reverse": true, "slices.Sort": true, "slices.SortFunc": true, "slices.SortStableFunc": true, "slices.Replace": true,
	"sort.Slice": true, "sort.SliceStable": true, "sort.Strings": true, "sort.Ints": true,
}

// aliasMutateGuard: slices are VALUES in this model, so an in-place rearrangement of a backing array that somebody
// else still holds would go unnoticed. When the slice handed to such a function is (a reslice of) one this function
// does not own - a variable remembered by trackReslice - the call is allowed only where it cannot touch an element
// another holder sees: slices.Insert at the very end of a slice that reaches the end of its base (append semantics).
func (fv *FuncVerifier) aliasMutateGuard(st *State, env *Env, call *ast.CallExpr, full string, args []Term) {
	a0, ok := ast.Unparen(call.Args[0]).(*ast.Ident)
	if !ok || st.resliced == nil {
		return
	}
	rs, marked := st.resliced[env.info.ObjectOf(a0)]
	if !marked {
		return
	}
	goal := False
	if full == "slices.Insert" && len(args) >= 2 && fv.w.IsSeq(args[0].Sort) {
		goal = And(Ge(args[1], fv.w.SeqLen(args[0])), Ge(rs[1], fv.w.SeqLen(rs[0])))
	}
	fv.oblige(st, env, "S", "alias-mutate", goal, call.Lparen,
		full+" rearranges, in its backing array, a slice this function does not own (it aliases a slice read from the heap or a parameter): other holders of that array would see elements shifted or overwritten")
}

var witnessRe = regexp.MustCompile(`\[[^\[\]]*\]\s*::`)

// mentionsInternalGhost: the clause (existential witnesses aside, which callers do not read) names a ghost that only
// exists inside the unit the clause belongs to.
func mentionsInternalGhost(text string) bool {
	return internalGhostRe.MatchString(witnessRe.ReplaceAllString(text, "::"))
}

// internalGhostRe: ghost names that only exist inside the unit a clause belongs to.
var internalGhostRe = regexp.MustCompile(`\b(fnres|done\d+|it\d+|off\d+|ks\d+|xs\d+|ys\d+b?)\b`)
