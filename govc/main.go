package main

import (
	"flag"
	"fmt"
	"os"
	"sort"
	"strings"
	"time"
)

func main() {
	if len(os.Args) < 2 {
		fmt.Fprintln(os.Stderr, "usage: govc <check|verify|list|selftest> ...")
		os.Exit(2)
	}
	switch os.Args[1] {
	case "verify":
		cmdVerify(os.Args[2:])
	case "check":
		os.Exit(cmdCheck(os.Args[2:]))
	case "list":
		cmdList(os.Args[2:])
	case "stress":
		cmdStress(os.Args[2:])
	case "axioms":
		cmdAxioms(os.Args[2:])
	case "baseline":
		cmdBaseline(os.Args[2:])
	case "desugar":
		s, err := desugar(strings.Join(os.Args[2:], " "))
		fmt.Println(s, err)
	default:
		fmt.Fprintln(os.Stderr, "unknown command", os.Args[1])
		os.Exit(2)
	}
}

func envOr(k, d string) string {
	if v := os.Getenv(k); v != "" {
		return v
	}
	return d
}

// cmdVerify: developer command — verify selected functions and print every obligation.
func cmdVerify(args []string) {
	fs := flag.NewFlagSet("verify", flag.ExitOnError)
	repo := fs.String("repo", envOr("GOVC_REPO", "/repo"), "repository")
	fn := fs.String("func", "", "comma-separated function keys (default: all contracted)")
	prop := fs.String("property", "", "only functions serving this property")
	verbose := fs.Bool("v", false, "print notes")
	dump := fs.String("dump", "", "keep SMT files in this directory")
	timeout := fs.Int("timeout", 10, "per-obligation timeout (s)")
	onlyFailed := fs.Bool("failed", false, "print only failed obligations")
	fs.BoolVar(&debugPanics, "panic", false, "do not recover translator panics")
	fs.Parse(args)
	start := time.Now()
	if os.Getenv("GOVC_BASELINE_LOCALS") != "" {
		loadBaselineLocals() // rename recovery as in `check` (debugging aid)
	}
	prog, err := LoadProgram(*repo)
	if err != nil {
		fmt.Println("load error:", err)
		os.Exit(2)
	}
	for _, e := range prog.LoadErrors {
		fmt.Println("LOAD-ERROR", e)
	}
	fmt.Printf("loaded in %.1fs: %d packages, %d functions, %d contracts\n", time.Since(start).Seconds(), len(prog.Pkgs), len(prog.Funcs), len(prog.Contracts))
	w := NewWorld()
	var sel []*FuncInfo
	if *fn != "" {
		for _, k := range strings.Split(*fn, ",") {
			fi, ok := prog.Funcs[k]
			if !ok {
				fmt.Println("no such function:", k)
				os.Exit(2)
			}
			sel = append(sel, fi)
		}
	} else {
		for _, c := range prog.Contracts {
			if c.BindErr != "" {
				fmt.Println("BIND-ERROR", c.BindErr)
				continue
			}
			if *prop != "" && !contains(c.Props, *prop) {
				continue
			}
			if c.Iface {
				continue
			}
			sel = append(sel, c.Fn)
		}
	}
	dir := *dump
	if dir == "" {
		dir, _ = os.MkdirTemp("", "govc-")
		defer os.RemoveAll(dir)
	} else {
		os.MkdirAll(dir, 0o755)
	}
	var all []*Obligation
	var results []*FuncResult
	for _, fi := range sel {
		r := VerifyFunc(w, prog, fi)
		results = append(results, r)
		all = append(all, r.Obls...)
	}
	fmt.Printf("generated %d obligations in %.1fs\n", len(all), time.Since(start).Seconds())
	SolveAll(w, all, dir, *timeout, 1, 16)
	groupOK := map[string]bool{}
	for _, g := range groupObligations(all) {
		groupOK[g.name] = g.ok
	}
	for _, r := range results {
		fmt.Printf("== %s: %d obligations\n", r.Fn.Key, len(r.Obls))
		for _, e := range r.BindErrors {
			fmt.Println("   BIND-ERROR", e)
		}
		if *verbose {
			for _, n := range r.Notes {
				fmt.Println("   note:", n)
			}
			if len(r.Dropped) > 0 {
				fmt.Println("   dropped calls:", strings.Join(r.Dropped, ", "))
			}
			if len(r.Externs) > 0 {
				fmt.Println("   externs:", strings.Join(r.Externs, ", "))
			}
		}
		for _, o := range r.Obls {
			ok := o.Status == "unsat"
			if o.Cover {
				ok = o.Status != "unsat"
				if strings.Contains(o.Name, "-reachable") {
					ok = groupOK[o.Name]
				}
			}
			if *onlyFailed && ok {
				continue
			}
			mark := "ok  "
			if !ok {
				mark = "FAIL"
			}
			fmt.Printf("   %s %-70s %-8s %-7s %5.2fs %s  -- %s\n", mark, fmt.Sprintf("%s@p%d", o.Name, o.PathIdx), o.Status, o.Solver, o.Seconds, o.Pos, o.Desc)
			if !ok && *verbose {
				fmt.Println("        ", firstLine(o.Output))
			}
		}
	}
	nok := 0
	for _, o := range all {
		if (o.Cover && (o.Status != "unsat" || (strings.Contains(o.Name, "-reachable") && groupOK[o.Name]))) || (!o.Cover && o.Status == "unsat") {
			nok++
		}
	}
	fmt.Printf("discharged %d/%d in %.1fs total\n", nok, len(all), time.Since(start).Seconds())
}

func contains(xs []string, x string) bool {
	for _, y := range xs {
		if y == x {
			return true
		}
	}
	return false
}

func cmdList(args []string) {
	prog, err := LoadProgram(envOr("GOVC_REPO", "/repo"))
	if err != nil {
		fmt.Println(err)
		os.Exit(2)
	}
	var keys []string
	for k := range prog.Funcs {
		keys = append(keys, k)
	}
	sort.Strings(keys)
	for _, k := range keys {
		c := ""
		if prog.Funcs[k].Contr != nil {
			c = " [contract: " + strings.Join(prog.Funcs[k].Contr.Props, ",") + "]"
		}
		fmt.Println(k + c)
	}
}

