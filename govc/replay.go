package main

import (
	"bufio"
	"bytes"
	"encoding/json"
	"fmt"
	"os"
	"os/exec"
	"path/filepath"
	"sort"
	"strings"
	"time"
)

// Probes are in-package Go tests kept under /verif/probes/<property>/<package dir relative to /repo>/*_test.go.
// They run the REAL code of /repo (current working tree, -tags verif so the executable spec functions are
// available) on enumerated small inputs and compare with an oracle. They are injected with `go test -overlay`
// (nothing is written into /repo). Test name conventions:
//   TestProbe_<name>   must pass; a failure is a concrete failing input for the property
//   TestKnown_<id>     reproduces a recorded known finding: it FAILS while the finding stands
// Probe results are bounded runtime checks: reported separately, never counted as discharged obligations.

type probeResult struct {
	Pkg    string  `json:"package"`
	Test   string  `json:"test"`
	Pass   bool    `json:"pass"`
	Output string  `json:"output"`
	Secs   float64 `json:"seconds"`
}

func probeDirs(prop string) []string {
	root := filepath.Join(verifDir, "probes", prop)
	var dirs []string
	filepath.Walk(root, func(p string, info os.FileInfo, err error) error {
		if err == nil && !info.IsDir() && strings.HasSuffix(p, "_test.go") {
			d := filepath.Dir(p)
			for _, x := range dirs {
				if x == d {
					return nil
				}
			}
			dirs = append(dirs, d)
		}
		return nil
	})
	sort.Strings(dirs)
	return dirs
}

// runProbes runs every probe of a property against repo. filter: "" all, "Known" only TestKnown_*, "Probe" only TestProbe_*.
func runProbes(repo, prop, filter string, seed int) []probeResult {
	var out []probeResult
	root := filepath.Join(verifDir, "probes", prop)
	tmp, err := os.MkdirTemp("", "govc-probe-")
	if err != nil {
		return nil
	}
	defer os.RemoveAll(tmp)
	for _, d := range probeDirs(prop) {
		rel, _ := filepath.Rel(root, d)
		ov := map[string]map[string]string{"Replace": {}}
		files, _ := filepath.Glob(filepath.Join(d, "*_test.go"))
		for _, f := range files {
			ov["Replace"][filepath.Join(repo, rel, "zz_verifprobe_"+filepath.Base(f))] = f
		}
		b, _ := json.Marshal(ov)
		ovPath := filepath.Join(tmp, sanitize(rel)+".json")
		os.WriteFile(ovPath, b, 0o644)
		run := "^Test(Probe|Known)_"
		if filter != "" {
			run = "^Test" + filter + "_"
		}
		cmd := exec.Command("go", "test", "-tags", "verif", "-overlay", ovPath, "-vet=off", "-count=1", "-timeout", "300s", "-run", run, "-json", "./"+rel+"/")
		cmd.Dir = repo
		cmd.Env = append(os.Environ(), "GOFLAGS=-mod=mod", "GOPROXY=off", fmt.Sprintf("VERIF_SEED=%d", seed))
		var buf bytes.Buffer
		cmd.Stdout = &buf
		cmd.Stderr = &buf
		start := time.Now()
		_ = cmd.Run()
		el := time.Since(start).Seconds()
		outputs := map[string]*strings.Builder{}
		status := map[string]string{}
		sc := bufio.NewScanner(&buf)
		sc.Buffer(make([]byte, 1<<20), 1<<24)
		var raw strings.Builder
		for sc.Scan() {
			var ev struct {
				Action, Test, Output string
			}
			line := sc.Bytes()
			if json.Unmarshal(line, &ev) != nil {
				raw.Write(line)
				raw.WriteByte('\n')
				continue
			}
			if ev.Test == "" {
				if ev.Action == "output" {
					raw.WriteString(ev.Output)
				}
				continue
			}
			if outputs[ev.Test] == nil {
				outputs[ev.Test] = &strings.Builder{}
			}
			switch ev.Action {
			case "output":
				if outputs[ev.Test].Len() < 4000 {
					outputs[ev.Test].WriteString(ev.Output)
				}
			case "pass", "fail", "skip":
				status[ev.Test] = ev.Action
			}
		}
		if len(status) == 0 {
			// build failure or panic before any test finished
			out = append(out, probeResult{Pkg: rel, Test: "(build)", Pass: false, Output: truncate(raw.String(), 4000), Secs: el})
			continue
		}
		var names []string
		for n := range outputs {
			names = append(names, n)
		}
		sort.Strings(names)
		for _, n := range names {
			if strings.Contains(n, "/") {
				continue
			}
			st, ok := status[n]
			if !ok {
				st = "fail" // started but never finished: crashed
			}
			out = append(out, probeResult{Pkg: rel, Test: n, Pass: st == "pass" || st == "skip", Output: truncate(outputs[n].String(), 4000), Secs: el})
		}
	}
	return out
}

func truncate(s string, n int) string {
	if len(s) > n {
		return s[:n] + "...(truncated)"
	}
	return s
}

// tryConcreteReplay searches for a concrete failing input of the real code after an obligation failed: the
// property's probes are run; if one fails its output (the failing input) is appended to the replay file.
func tryConcreteReplay(repo, prop string, g *oblGroup, replayPath string) bool {
	res := cachedProbes(repo, prop)
	var fails []probeResult
	for _, r := range res {
		if !r.Pass && strings.HasPrefix(r.Test, "TestProbe_") {
			fails = append(fails, r)
		}
	}
	if len(fails) == 0 {
		return false
	}
	var rec map[string]any
	if b, err := os.ReadFile(replayPath); err == nil {
		json.Unmarshal(b, &rec)
	}
	if rec == nil {
		rec = map[string]any{}
	}
	rec["concrete_failing_inputs"] = fails
	rec["replayed_on_real_code"] = true
	b, _ := json.MarshalIndent(rec, "", " ")
	os.WriteFile(replayPath, b, 0o644)
	return true
}

var probeCache = map[string][]probeResult{}

func cachedProbes(repo, prop string) []probeResult {
	if r, ok := probeCache[prop]; ok {
		return r
	}
	r := runProbes(repo, prop, "", 1)
	probeCache[prop] = r
	return r
}

// knownFindingProbes runs the TestKnown_* probes: returns the ids whose finding still reproduces.
func knownFindingProbes(repo, prop string, seed int) map[string]probeResult {
	out := map[string]probeResult{}
	for _, r := range runProbes(repo, prop, "Known", seed) {
		if strings.HasPrefix(r.Test, "TestKnown_") {
			out[strings.TrimPrefix(r.Test, "TestKnown_")] = r
		}
	}
	return out
}

// runBounded runs the bounded stand-ins / runtime contract checks of the thorough tier. Returns #violations.
func runBounded(repo, prop string, seed int, extra map[string]any) int {
	res := runProbes(repo, prop, "Probe", seed)
	probeCache[prop] = res
	violations := 0
	var summary []any
	replayDir := filepath.Join(verifDir, "replays", prop)
	os.MkdirAll(replayDir, 0o755)
	for _, r := range res {
		if !strings.HasPrefix(r.Test, "TestProbe_") && r.Test != "(build)" {
			continue
		}
		summary = append(summary, map[string]any{"package": r.Pkg, "probe": r.Test, "pass": r.Pass, "seconds": r.Secs, "summary": lastLines(r.Output, 3)})
		if !r.Pass {
			violations++
			path := filepath.Join(replayDir, "probe-"+sanitize(r.Test)+".json")
			b, _ := json.MarshalIndent(map[string]any{"property": prop, "obligation": "bounded:" + r.Test, "kind": "bounded runtime check of the real code (concrete failing input below)", "package": r.Pkg, "output": r.Output}, "", " ")
			os.WriteFile(path, b, 0o644)
			fmt.Printf("VIOLATION property=%s replay=%s\n  bounded probe %s (%s) fails on the real code:\n%s\n", prop, path, r.Test, r.Pkg, indent(lastLines(r.Output, 6)))
		}
	}
	extra["bounded_probes"] = summary
	extra["bounded_note"] = "bounded runtime checks of the real code on enumerated small inputs against independent oracles / executable spec functions; labelled bounded, NOT counted in obligations/discharged"
	return violations
}

func lastLines(s string, n int) string {
	ls := strings.Split(strings.TrimSpace(s), "\n")
	if len(ls) > n {
		ls = ls[len(ls)-n:]
	}
	return strings.Join(ls, "\n")
}

func indent(s string) string {
	return "    " + strings.ReplaceAll(s, "\n", "\n    ")
}
