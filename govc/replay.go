package main

// tryConcreteReplay searches for a concrete failing input of the real code for a failed obligation group
// (executable oracles per property). Returns true if one was found and recorded in the replay file.
func tryConcreteReplay(repo, prop string, g *oblGroup, replayPath string) bool {
	return false
}

// runBounded runs the bounded stand-ins / runtime contract checks of the thorough tier. Returns #violations.
func runBounded(repo, prop string, seed int, extra map[string]any) int {
	return 0
}
