package main

import (
	"fmt"
	"go/ast"
	"go/token"
	"go/types"
	"os"
	"path/filepath"
	"sort"
	"strings"

	"golang.org/x/tools/go/packages"
)

const repoModule = "github.com/octohelm/gengo"

// FuncInfo is one function or method of /repo that may be put under contract.
type FuncInfo struct {
	Key   string // e.g. pkg/camelcase.Split, pkg/types.visits.visited
	Pkg   *packages.Package
	Decl  *ast.FuncDecl
	Obj   *types.Func
	File  *ast.File
	Contr *Contract
	// VarInit: pseudo function standing for the initialiser of a package-level variable
	VarInit bool
}

// Program is the loaded /repo.
type Program struct {
	Fset   *token.FileSet
	Pkgs   []*packages.Package
	ByPath map[string]*packages.Package
	Funcs  map[string]*FuncInfo
	ByObj  map[*types.Func]*FuncInfo
	// spec functions (spec_*) by object
	Specs      map[*types.Func]*FuncInfo
	Contracts  []*Contract
	// contracts of interface methods declared in /repo (assumed for every implementation)
	IfaceContracts map[string]*Contract
	// contracts of package-level function variables (assumed, not verified: higher-order)
	VarContracts map[types.Object]*Contract
	LoadErrors []string
	RepoDir    string
	stable     map[types.Object]bool
	unstable   map[types.Object]bool
}

func relPkg(path string) string {
	p := strings.TrimPrefix(path, repoModule)
	p = strings.TrimPrefix(p, "/")
	if p == "" {
		p = "."
	}
	return p
}

func funcKey(pkgPath string, decl *ast.FuncDecl) string {
	name := decl.Name.Name
	if decl.Recv != nil && len(decl.Recv.List) > 0 {
		t := decl.Recv.List[0].Type
		for {
			switch x := t.(type) {
			case *ast.StarExpr:
				t = x.X
				continue
			case *ast.ParenExpr:
				t = x.X
				continue
			case *ast.IndexExpr:
				t = x.X
				continue
			case *ast.IndexListExpr:
				t = x.X
				continue
			}
			break
		}
		if id, ok := t.(*ast.Ident); ok {
			name = id.Name + "." + name
		}
	}
	return relPkg(pkgPath) + "." + name
}

func LoadProgram(repoDir string) (*Program, error) {
	fset := token.NewFileSet()
	cfg := &packages.Config{
		Fset:       fset,
		Dir:        repoDir,
		Mode:       packages.NeedName | packages.NeedFiles | packages.NeedCompiledGoFiles | packages.NeedImports | packages.NeedTypes | packages.NeedTypesSizes | packages.NeedSyntax | packages.NeedTypesInfo | packages.NeedDeps | packages.NeedModule,
		BuildFlags: []string{"-tags=verif"},
		Env:        append(os.Environ(), "GOFLAGS=-mod=mod", "GOPROXY=off"),
	}
	pkgs, err := packages.Load(cfg, "./...")
	if err != nil {
		return nil, err
	}
	p := &Program{Fset: fset, ByPath: map[string]*packages.Package{}, Funcs: map[string]*FuncInfo{}, ByObj: map[*types.Func]*FuncInfo{}, Specs: map[*types.Func]*FuncInfo{}, RepoDir: repoDir}
	sort.Slice(pkgs, func(i, j int) bool { return pkgs[i].PkgPath < pkgs[j].PkgPath })
	for _, pkg := range pkgs {
		if !strings.HasPrefix(pkg.PkgPath, repoModule) {
			continue
		}
		for _, e := range pkg.Errors {
			p.LoadErrors = append(p.LoadErrors, fmt.Sprintf("%s: %s", pkg.PkgPath, e.Msg))
		}
		p.Pkgs = append(p.Pkgs, pkg)
		p.ByPath[pkg.PkgPath] = pkg
		for _, f := range pkg.Syntax {
			for _, d := range f.Decls {
				if gd, isGen := d.(*ast.GenDecl); isGen && gd.Tok == token.VAR {
					// package-level variable initialisers that contain function literals can be put under contract
					// as the pseudo function "var:<name>" whose body evaluates the initialiser
					for _, sp := range gd.Specs {
						vs := sp.(*ast.ValueSpec)
						for i, nm := range vs.Names {
							if i >= len(vs.Values) {
								continue
							}
							hasLit := false
							ast.Inspect(vs.Values[i], func(n ast.Node) bool {
								if _, ok := n.(*ast.FuncLit); ok {
									hasLit = true
								}
								return true
							})
							// package-level functions of this package handed over AS VALUES (`makeCase("", wrap(titleWord))`):
							// each stands for a literal with the function's body, numbered after the real literals, so that
							// `lit k` clauses written for a literal still have a subject when the literal was given a name
							var fnValues []*ast.FuncDecl
							calleeIdents := map[*ast.Ident]bool{}
							ast.Inspect(vs.Values[i], func(n ast.Node) bool {
								if c, ok := n.(*ast.CallExpr); ok {
									if id, ok := ast.Unparen(c.Fun).(*ast.Ident); ok {
										calleeIdents[id] = true
									}
								}
								return true
							})
							ast.Inspect(vs.Values[i], func(n ast.Node) bool {
								if _, ok := n.(*ast.FuncLit); ok {
									return false
								}
								if id, ok := n.(*ast.Ident); ok && !calleeIdents[id] {
									if fn, ok := pkg.TypesInfo.Uses[id].(*types.Func); ok && fn.Pkg() == pkg.Types && fn.Parent() == pkg.Types.Scope() {
										for _, f2 := range pkg.Syntax {
											for _, d2 := range f2.Decls {
												if fd2, ok := d2.(*ast.FuncDecl); ok && fd2.Body != nil && pkg.TypesInfo.Defs[fd2.Name] == fn {
													fnValues = append(fnValues, fd2)
												}
											}
										}
									}
								}
								return true
							})
							if !hasLit && len(fnValues) == 0 {
								continue
							}
							stmts := []ast.Stmt{&ast.ExprStmt{X: vs.Values[i]}}
							for _, fd2 := range fnValues {
								stmts = append(stmts, &ast.ExprStmt{X: &ast.FuncLit{Type: fd2.Type, Body: fd2.Body}})
							}
							decl := &ast.FuncDecl{Name: nm, Type: &ast.FuncType{Func: vs.Values[i].Pos(), Params: &ast.FieldList{}},
								Body: &ast.BlockStmt{Lbrace: vs.Values[i].Pos() - 1, List: stmts, Rbrace: vs.Values[i].End()}}
							fi := &FuncInfo{Key: relPkg(pkg.PkgPath) + ".var:" + nm.Name, Pkg: pkg, Decl: decl, File: f, VarInit: true}
							p.Funcs[fi.Key] = fi
						}
					}
					continue
				}
				fd, ok := d.(*ast.FuncDecl)
				if !ok {
					continue
				}
				obj, _ := pkg.TypesInfo.Defs[fd.Name].(*types.Func)
				if obj == nil {
					continue
				}
				fi := &FuncInfo{Key: funcKey(pkg.PkgPath, fd), Pkg: pkg, Decl: fd, Obj: obj, File: f}
				if _, dup := p.Funcs[fi.Key]; dup && fd.Name.Name != "init" {
					// e.g. generic + non generic of same name cannot happen; keep the first
					continue
				}
				p.Funcs[fi.Key] = fi
				p.ByObj[obj] = fi
				if isSpecName(fd.Name.Name) {
					p.Specs[obj] = fi
				}
			}
		}
	}
	// contracts
	for _, pkg := range p.Pkgs {
		for _, f := range pkg.Syntax {
			fname := filepath.Base(fset.File(f.Pos()).Name())
			if fname != "contracts_verif.go" {
				continue
			}
			cs, err := parseContractFile(p, pkg, f)
			if err != nil {
				return nil, err
			}
			p.Contracts = append(p.Contracts, cs...)
		}
	}
	for _, c := range p.Contracts {
		fi, ok := p.Funcs[c.Key]
		if !ok && p.bindIface(c) {
			continue
		}
		if !ok {
			name := c.Key[strings.LastIndex(c.Key, ".")+1:]
			if v, isVar := c.Pkg.Types.Scope().Lookup(name).(*types.Var); isVar {
				if _, isFn := v.Type().Underlying().(*types.Signature); isFn {
					if p.VarContracts == nil {
						p.VarContracts = map[types.Object]*Contract{}
					}
					p.VarContracts[v] = c
					c.Iface = true
					continue
				}
			}
		}
		if !ok {
			c.BindErr = fmt.Sprintf("contract for %s: no such function in /repo", c.Key)
			continue
		}
		fi.Contr = c
		c.Fn = fi
	}
	return p, nil
}

// StableGlobal reports whether a package-level variable of /repo has an initialiser and is never assigned
// (or has its address taken) anywhere in /repo after that — checked syntactically over all loaded files.
func (p *Program) StableGlobal(o types.Object) bool {
	if p.stable == nil {
		p.stable = map[types.Object]bool{}
		p.unstable = map[types.Object]bool{}
		for _, pkg := range p.Pkgs {
			for _, f := range pkg.Syntax {
				ast.Inspect(f, func(n ast.Node) bool {
					mark := func(e ast.Expr) {
						switch x := ast.Unparen(e).(type) {
						case *ast.Ident:
							if ob := pkg.TypesInfo.ObjectOf(x); ob != nil {
								p.unstable[ob] = true
							}
						case *ast.SelectorExpr:
							if _, isSel := pkg.TypesInfo.Selections[x]; !isSel {
								if ob := pkg.TypesInfo.ObjectOf(x.Sel); ob != nil {
									p.unstable[ob] = true
								}
							}
						}
					}
					switch x := n.(type) {
					case *ast.AssignStmt:
						if x.Tok != token.DEFINE {
							for _, l := range x.Lhs {
								mark(l)
							}
						}
					case *ast.IncDecStmt:
						mark(x.X)
					case *ast.UnaryExpr:
						if x.Op == token.AND {
							mark(x.X)
						}
					case *ast.GenDecl:
						if x.Tok == token.VAR {
							for _, sp := range x.Specs {
								vs := sp.(*ast.ValueSpec)
								if len(vs.Values) > 0 {
									for _, nm := range vs.Names {
										if ob := pkg.TypesInfo.Defs[nm]; ob != nil && ob.Parent() == pkg.Types.Scope() {
											p.stable[ob] = true
										}
									}
								}
							}
						}
					}
					return true
				})
			}
		}
	}
	return p.stable[o] && !p.unstable[o]
}

// ifaceKey names an interface method: <relpkg>.<Iface>.<Method>.
func ifaceKey(fn *types.Func) string {
	sig, _ := fn.Type().(*types.Signature)
	if sig == nil || sig.Recv() == nil || fn.Pkg() == nil {
		return ""
	}
	t := sig.Recv().Type()
	if n, ok := t.(*types.Named); ok {
		return relPkg(fn.Pkg().Path()) + "." + n.Obj().Name() + "." + fn.Name()
	}
	// methods of interface literals: find the named interface that declares it
	for _, name := range fn.Pkg().Scope().Names() {
		if tn, ok := fn.Pkg().Scope().Lookup(name).(*types.TypeName); ok {
			if it, ok := tn.Type().Underlying().(*types.Interface); ok {
				for i := 0; i < it.NumExplicitMethods(); i++ {
					if it.ExplicitMethod(i) == fn {
						return relPkg(fn.Pkg().Path()) + "." + name + "." + fn.Name()
					}
				}
			}
		}
	}
	return ""
}

// bindIface binds a contract block to an interface method if its key names one.
func (p *Program) bindIface(c *Contract) bool {
	parts := strings.Split(c.Key, ".")
	if len(parts) < 3 {
		return false
	}
	meth := parts[len(parts)-1]
	iface := parts[len(parts)-2]
	tn, ok := c.Pkg.Types.Scope().Lookup(iface).(*types.TypeName)
	if !ok {
		return false
	}
	it, ok := tn.Type().Underlying().(*types.Interface)
	if !ok {
		return false
	}
	for i := 0; i < it.NumMethods(); i++ {
		if it.Method(i).Name() == meth {
			if p.IfaceContracts == nil {
				p.IfaceContracts = map[string]*Contract{}
			}
			p.IfaceContracts[c.Key] = c
			c.Iface = true
			return true
		}
	}
	return false
}

// fileOf returns the *ast.File containing pos in pkg.
func fileOf(pkg *packages.Package, pos token.Pos) *ast.File {
	for _, f := range pkg.Syntax {
		if f.FileStart <= pos && pos <= f.FileEnd {
			return f
		}
	}
	return nil
}
