package main

import (
	"encoding/json"
	"flag"
	"fmt"
	"os"
	"os/exec"
	"path/filepath"
	"regexp"
	"go/types"
	"sort"
	"strconv"
	"strings"
	"sync"
	"time"
)

const verifDir = "/verif"

// Baseline: obligation names discharged on the delivered tree, per property (committed, never written by `check`).
type Baseline struct {
	Properties map[string][]string `json:"properties"`
	// Locals: the variables of every function under contract on the delivered tree (rename recovery, see checkClause)
	Locals map[string][]localInfo `json:"locals,omitempty"`
	// Loops: per function under contract, {number of loops of its own, number incl. loops of inlined helpers}
	Loops map[string][2]int `json:"loops,omitempty"`
}

// loadBaselineLocals makes the delivered tree's variable lists available to clause binding.
func loadBaselineLocals() {
	var base Baseline
	if loadJSON(filepath.Join(verifDir, "baseline", "obligations.json"), &base) == nil && base.Locals != nil {
		baselineLocals = base.Locals
		baselineLoops = base.Loops
	}
}

// KnownFindings: recorded defects (not repaired) and repaired ones (fixed entries suppress nothing).
type KnownFindings struct {
	Findings []Finding `json:"findings"`
	Fixed    []string  `json:"fixed"`
}

type Finding struct {
	Property   string `json:"property"`
	Obligation string `json:"obligation"`
	What       string `json:"what"`
	InputClass string `json:"input_class"`
}

func loadJSON(path string, v any) error {
	b, err := os.ReadFile(path)
	if err != nil {
		return err
	}
	return json.Unmarshal(b, v)
}

type oblGroup struct {
	name  string
	obls  []*Obligation
	ok    bool
	class string
}

func groupObligations(obls []*Obligation) []*oblGroup {
	idx := map[string]*oblGroup{}
	var out []*oblGroup
	for _, o := range obls {
		g, ok := idx[o.Name]
		if !ok {
			g = &oblGroup{name: o.Name, ok: true, class: o.Class}
			idx[o.Name] = g
			out = append(out, g)
		}
		g.obls = append(g.obls, o)
		good := o.Status == "unsat"
		if o.Cover {
			good = o.Status != "unsat" && o.Status != "error"
		}
		if !good {
			g.ok = false
		}
	}
	// reachability covers: one feasible path suffices
	for _, g := range out {
		if strings.Contains(g.name, "#V.exit-reachable") || strings.Contains(g.name, "#V.loop-reachable") {
			g.ok = false
			for _, o := range g.obls {
				if o.Status != "unsat" && o.Status != "error" {
					g.ok = true
				}
			}
		}
	}
	return out
}

// sKey aggregates safety obligations per function: "<func>#S" means "the function is panic-free".
// sKey: safety (S) and frame (R.frame) obligations are judged per FUNCTION: they are generated per site / per touched
// heap field, so a change that adds a panicking site or a write to a field the delivered code never touched produces
// an obligation with a new name. It still breaks what the function's contract promised on the delivered tree
// (no panic; only the assigned locations change), provided the function was verified there at all.
func sKey(name string) string {
	if i := strings.Index(name, "#S."); i >= 0 {
		return name[:i] + "#*"
	}
	if i := strings.Index(name, "#R.frame["); i >= 0 {
		return name[:i] + "#*"
	}
	if i := strings.Index(name, "#"); i >= 0 {
		return name[:i] + "#*" // every baseline obligation marks its function as verified on the delivered tree
	}
	return name
}

// fnVerifiedKey is what sKey yields for the S / R.frame obligations of a function.
func perFunctionClass(name string) bool {
	return strings.Contains(name, "#S.") || strings.Contains(name, "#R.frame[")
}

type runResult struct {
	prog     *Program
	world    *World
	results  []*FuncResult
	obls     []*Obligation
	bindErrs []string
	// frameOnly[f]: f belongs to this property's check only through a `P:frame` entry (and is not a callee of a function
	// that serves the property in full): only its class-R obligations and aliasing guards are judged for the property
	frameOnly map[string]string
	wall     float64
	solveSec float64
}

// runProperty generates and discharges every obligation serving a property ("" = all).
func runProperty(repo, prop string, timeoutSec, seed int, smtDir string) (*runResult, error) {
	start := time.Now()
	if baselineLocals == nil && prop != "" {
		loadBaselineLocals()
	}
	prog, err := LoadProgram(repo)
	if err != nil {
		return nil, err
	}
	closureProg = prog
	rr := &runResult{prog: prog, world: NewWorld()}
	for _, e := range prog.LoadErrors {
		rr.bindErrs = append(rr.bindErrs, "load: "+e)
	}
	// A modular proof of a function relies on the contracts of the functions it calls, so the check of a property
	// covers the functions that name it in `props` AND, transitively, every contracted /repo function whose contract
	// their proofs use (calleesUsed): a change that breaks such a callee's contract is reported under the property.
	done := map[string]bool{}
	var work []*Contract
	for _, c := range prog.Contracts {
		if prop != "" && !contains(c.Props, prop) {
			continue
		}
		work = append(work, c)
	}
	for len(work) > 0 {
		c := work[0]
		work = work[1:]
		if done[c.Key] {
			continue
		}
		done[c.Key] = true
		if c.BindErr != "" {
			rr.bindErrs = append(rr.bindErrs, c.Key+"#contract-binds: "+c.BindErr)
			continue
		}
		if c.Iface {
			continue
		}
		r := VerifyFunc(rr.world, prog, c.Fn)
		rr.results = append(rr.results, r)
		props := c.Props
		if prop != "" && !contains(props, prop) {
			props = append(append([]string(nil), props...), prop)
		}
		for _, o := range r.Obls {
			o.Props = props
		}
		rr.obls = append(rr.obls, r.Obls...)
		for _, e := range r.BindErrors {
			rr.bindErrs = append(rr.bindErrs, c.Key+"#contract-binds: "+e)
		}
		if prop != "" {
			for _, k := range calleeKeys(r) {
				if fi, ok := prog.Funcs[k]; ok && fi.Contr != nil && !done[k] {
					work = append(work, fi.Contr)
				}
			}
		}
	}
	if prop != "" {
		full := map[string]bool{}
		byKey := map[string]*FuncResult{}
		for _, r := range rr.results {
			byKey[r.Fn.Key] = r
			if contains(r.Fn.Contr.Props, prop) && r.Fn.Contr.PropQual[prop] == "" {
				full[r.Fn.Key] = true
			}
		}
		for changed := true; changed; {
			changed = false
			for _, r := range rr.results {
				if !full[r.Fn.Key] {
					continue
				}
				for _, k := range calleeKeys(r) {
					if _, ok := byKey[k]; ok && !full[k] {
						full[k], changed = true, true
					}
				}
			}
		}
		rr.frameOnly = map[string]string{}
		for _, r := range rr.results {
			if !full[r.Fn.Key] {
				q := r.Fn.Contr.PropQual[prop]
				if q == "" {
					q = "frame" // reached only through functions that are themselves partial members
				}
				rr.frameOnly[r.Fn.Key] = q
			}
		}
	}
	t0 := time.Now()
	SolveAll(rr.world, rr.obls, smtDir, timeoutSec, seed, 16)
	// one retry with another seed and a longer limit for anything not decided
	var retry []*Obligation
	for _, o := range rr.obls {
		if !o.Cover && o.Status != "unsat" && o.Status != "sat" && o.Status != "error" {
			retry = append(retry, o)
		}
	}
	if len(retry) > 0 && len(retry) <= 40 {
		SolveAll(rr.world, retry, smtDir, timeoutSec*2, seed+7, 16)
	}
	dropAuxiliary(rr, smtDir, timeoutSec, seed)
	rr.solveSec = time.Since(t0).Seconds()
	rr.wall = time.Since(start).Seconds()
	return rr, nil
}

// calleeKeys: keys of the contracted /repo functions whose contracts the proof of r used. A proof that used the
// (assumed) contract of an INTERFACE method of /repo - directly or through a trusted wrapper iface_<I>_<M> - relies on
// every implementation in /repo honouring it: the contracted implementations T.M are callees too (dynamic dispatch).
func calleeKeys(r *FuncResult) []string {
	var out []string
	for _, c := range r.Callees {
		k := c
		if i := strings.Index(k, " ("); i >= 0 {
			if strings.Contains(k[i:], "ASSUMED") {
				out = append(out, implementationsOf(k[:i])...)
				continue
			}
			if strings.Contains(k[i:], "no contract") {
				continue
			}
			k = k[:i]
		}
		if j := strings.LastIndex(k, ".iface_"); j >= 0 {
			if parts := strings.SplitN(k[j+len(".iface_"):], "_", 2); len(parts) == 2 {
				out = append(out, implementationsOf(k[:j]+"."+parts[0]+"."+parts[1])...)
			}
		}
		out = append(out, k)
	}
	return out
}

// closureProg: the program the closure is computed over (set by runCheck / baseline before calleeKeys is used).
var closureProg *Program

// implementationsOf: keys of the contracted methods of /repo types that implement the /repo interface method
// "<pkg>.<Iface>.<Method>".
func implementationsOf(ifaceMethodKey string) []string {
	prog := closureProg
	if prog == nil {
		return nil
	}
	i := strings.LastIndex(ifaceMethodKey, ".")
	if i < 0 {
		return nil
	}
	method := ifaceMethodKey[i+1:]
	j := strings.LastIndex(ifaceMethodKey[:i], ".")
	if j < 0 {
		return nil
	}
	pkgRel, ifaceName := ifaceMethodKey[:j], ifaceMethodKey[j+1:i]
	var it *types.Interface
	for _, p := range prog.Pkgs {
		if relPkg(p.PkgPath) == pkgRel && p.Types != nil {
			if tn, ok := p.Types.Scope().Lookup(ifaceName).(*types.TypeName); ok {
				it, _ = tn.Type().Underlying().(*types.Interface)
			}
		}
	}
	if it == nil {
		return nil
	}
	var out []string
	for k, fi := range prog.Funcs {
		if fi.Contr == nil || fi.Obj == nil || fi.Obj.Name() != method {
			continue
		}
		sig, _ := fi.Obj.Type().(*types.Signature)
		if sig == nil || sig.Recv() == nil {
			continue
		}
		rt := sig.Recv().Type()
		if types.Implements(rt, it) || types.Implements(types.NewPointer(rt), it) {
			out = append(out, k)
		}
	}
	sort.Strings(out)
	return out
}

// siblingOf: the other half of an invariant's obligation pair (`.entry` <-> `.preserved`). A half whose goal is trivially
// true on the delivered tree is not generated there (e.g. `done2` right after loop 2), so it is absent from the
// baseline; the clause itself is in the baseline through its other half, and a failure of either half counts.
func siblingOf(name string) string {
	if strings.HasSuffix(name, ".entry") {
		return strings.TrimSuffix(name, ".entry") + ".preserved"
	}
	if strings.HasSuffix(name, ".preserved") {
		return strings.TrimSuffix(name, ".preserved") + ".entry"
	}
	return ""
}

var invOblRe = regexp.MustCompile(`#F\.inv\[loop(\d+),(\d+)\]\.(entry|preserved)`)

// dropAuxiliary: loop invariants, loop assumptions and hints are proof AIDS, not claims. When one of them no longer
// binds (a local it mentions is gone), or binds only after rename recovery and then fails, the function is verified
// again WITHOUT those clauses (the engine-derived iteration summaries still apply). If every obligation of that
// second attempt is discharged, the function is proved - by a proof that does not use the clauses - and the second
// attempt replaces the first; the dropped clauses are listed in the notes. Otherwise the first attempt stands and
// its failures are reported. Dropping assumptions and invariants only removes facts, so this cannot accept anything
// that a proof does not support; it is tried only for functions that carry a top-level claim.
func dropAuxiliary(rr *runResult, smtDir string, timeoutSec, seed int) {
	for ri, r := range rr.results {
		c := r.Fn.Contr
		if c == nil {
			continue
		}
		hasClaim := false
		failing := map[string]bool{}
		for _, o := range r.Obls {
			if isTopLevelClaim(o.Name) {
				hasClaim = true
			}
			if !o.Cover && o.Status != "unsat" {
				if m := invOblRe.FindStringSubmatch(o.Name); m != nil {
					failing[m[1]+","+m[2]] = true
				}
			}
		}
		if !hasClaim {
			continue
		}
		var off []*Clause
		for _, cl := range c.Clauses {
			if cl.Loop == 0 || cl.Lit != 0 {
				continue
			}
			switch cl.Kind {
			case "invariant":
				// an invariant that still binds AS WRITTEN and fails is reported (it may carry a claim that no
				// postcondition repeats); one that had to be re-stated over a guessed successor of a vanished
				// variable is a proof aid of code that no longer exists in that form
				if failing[fmt.Sprintf("%d,%d", cl.Loop, cl.Ord)] && cl.Renamed {
					off = append(off, cl)
					continue
				}
				fallthrough
			case "assume", "hint":
				for _, e := range r.BindErrors {
					if strings.HasPrefix(e, cl.Pos+" ("+cl.Kind+")") {
						off = append(off, cl)
						break
					}
				}
			}
		}
		if len(off) == 0 {
			continue
		}
		for _, cl := range off {
			cl.Off = true
		}
		r2 := VerifyFunc(rr.world, rr.prog, r.Fn)
		for _, o := range r2.Obls {
			o.Props = c.Props
		}
		SolveAll(rr.world, r2.Obls, smtDir, timeoutSec, seed, 16)
		ok := len(r2.BindErrors) == 0
		for _, o := range r2.Obls {
			if !o.Cover && o.Status != "unsat" {
				ok = false
			}
		}
		if !ok {
			for _, cl := range off {
				cl.Off = false
			}
			continue
		}
		for _, cl := range off {
			r2.Notes = append(r2.Notes, fmt.Sprintf("auxiliary clause set aside (no longer binds or holds; the proof does not use it): loop %d %s %s", cl.Loop, cl.Kind, cl.Text))
		}
		// replace the first attempt
		old := map[*Obligation]bool{}
		for _, o := range r.Obls {
			old[o] = true
		}
		var keep []*Obligation
		for _, o := range rr.obls {
			if !old[o] {
				keep = append(keep, o)
			}
		}
		rr.obls = append(keep, r2.Obls...)
		var be []string
		for _, e := range rr.bindErrs {
			mine := false
			for _, e1 := range r.BindErrors {
				if e == c.Key+"#contract-binds: "+e1 {
					mine = true
				}
			}
			if !mine {
				be = append(be, e)
			}
		}
		rr.bindErrs = be
		rr.results[ri] = r2
	}
}

func cmdCheck(args []string) int {
	fs := flag.NewFlagSet("check", flag.ExitOnError)
	repo := fs.String("repo", envOr("GOVC_REPO", "/repo"), "repository")
	prop := fs.String("property", "", "property id")
	tier := fs.String("tier", envOr("VERIF_TIER", "quick"), "quick|thorough")
	fs.Parse(args)
	if *prop == "" {
		fmt.Fprintln(os.Stderr, "check: -property required")
		return 2
	}
	seed := 1
	if s := os.Getenv("VERIF_SEED"); s != "" {
		if n, err := strconv.Atoi(s); err == nil {
			seed = n%100000 + 1
		}
	}
	timeout := 15
	if *tier == "thorough" {
		timeout = 60
	}
	smtDir, _ := os.MkdirTemp("", "govc-smt-")
	defer os.RemoveAll(smtDir)
	rr, err := runProperty(*repo, *prop, timeout, seed, smtDir)
	if err != nil {
		fmt.Println("govc: cannot load /repo:", err)
		// a tree that does not load cannot be verified: report against the baseline
		return reportLoadFailure(*prop, *tier, seed, err)
	}
	var base Baseline
	_ = loadJSON(filepath.Join(verifDir, "baseline", "obligations.json"), &base)
	var kf KnownFindings
	_ = loadJSON(filepath.Join(verifDir, "known_findings.json"), &kf)
	inBase := map[string]bool{}
	for _, n := range base.Properties[*prop] {
		inBase[n] = true
		inBase[sKey(n)] = true
	}
	known := map[string]Finding{}
	for _, f := range kf.Findings {
		if f.Property == *prop {
			known[f.Obligation] = f
		}
	}
	groups := groupObligations(rr.obls)
	// recorded findings that are not tied to a failing obligation are re-checked by running the real code
	var runtimeKnown []Finding
	for _, f := range kf.Findings {
		if f.Property == *prop && strings.HasPrefix(f.Obligation, "runtime:") {
			runtimeKnown = append(runtimeKnown, f)
		}
	}
	var knownRuntimeLines []string
	if len(runtimeKnown) > 0 {
		res := knownFindingProbes(*repo, *prop, seed)
		for _, f := range runtimeKnown {
			id := strings.ReplaceAll(strings.TrimPrefix(f.Obligation, "runtime:"), "-", "_")
			if r, ok := res[id]; ok && !r.Pass {
				line := fmt.Sprintf("KNOWN-FINDING: property=%s %s %s (input class: %s)", *prop, f.Obligation, f.What, f.InputClass)
				fmt.Println(line)
				knownRuntimeLines = append(knownRuntimeLines, line)
			}
		}
	}
	replayDir := filepath.Join(envOr("GOVC_REPLAY_DIR", filepath.Join(verifDir, "replays")), *prop)
	os.MkdirAll(replayDir, 0o755)
	violations := 0
	var undecided, knownPrinted []string
	nObl, nDis := 0, 0
	byClass := map[string][2]int{}
	byBackend := map[string]int{}
	var samples []any
	judged := groups[:0:0]
	for _, g := range groups {
		if fk, _, _ := strings.Cut(g.name, "#"); rr.frameOnly[fk] != "" && !qualifies(g.name, rr.frameOnly[fk]) {
			continue // a function that serves this property through its frame only: its other clauses belong elsewhere
		}
		judged = append(judged, g)
	}
	groups = judged
	for _, g := range groups {
		if g.ok {
			nObl++
			nDis++
			c := byClass[g.class]
			c[0]++
			c[1]++
			byClass[g.class] = c
			for _, o := range g.obls {
				byBackend[o.Solver]++
			}
			if len(samples) < 6 {
				samples = append(samples, map[string]any{"obligation": g.name, "paths": len(g.obls), "status": "discharged", "backend": g.obls[0].Solver, "what": g.obls[0].Desc, "at": g.obls[0].Pos})
			}
			continue
		}
		if f, ok := known[g.name]; ok {
			line := fmt.Sprintf("KNOWN-FINDING: property=%s %s %s", *prop, g.name, f.What)
			fmt.Println(line)
			knownPrinted = append(knownPrinted, line)
			continue
		}
		nObl++
		c := byClass[g.class]
		c[0]++
		byClass[g.class] = c
		if inBase[g.name] || inBase[siblingOf(g.name)] || (perFunctionClass(g.name) && inBase[sKey(g.name)]) {
			violations++
			path := writeReplay(replayDir, *prop, g, rr, smtDir)
			suffix := " no-failing-input-found"
			if tryConcreteReplay(*repo, *prop, g, path) {
				suffix = ""
			}
			fmt.Printf("VIOLATION property=%s replay=%s%s\n", *prop, path, suffix)
			fmt.Printf("  failed obligation %s (%s) at %s: %s\n", g.name, statusSummary(g), g.obls[0].Pos, g.obls[0].Desc)
		} else {
			fmt.Printf("UNDECIDED obligation=%s (%s) at %s: %s\n", g.name, statusSummary(g), g.obls[0].Pos, g.obls[0].Desc)
			undecided = append(undecided, g.name)
		}
	}
	// contract binding failures
	for _, e := range rr.bindErrs {
		name := e
		if i := strings.Index(e, ": "); i >= 0 {
			name = e[:i]
		}
		fn := name
		if i := strings.Index(fn, "#"); i >= 0 {
			fn = fn[:i]
		}
		hit := false
		for n := range inBase {
			if strings.HasPrefix(n, fn+"#") {
				hit = true
			}
		}
		if hit || strings.HasPrefix(e, "load:") && len(inBase) > 0 {
			violations++
			path := filepath.Join(replayDir, sanitize(name)+".json")
			b, _ := json.MarshalIndent(map[string]any{"property": *prop, "obligation": name, "kind": "contract-binds", "detail": e,
				"explanation": "a function this property depends on disappeared or changed shape (or /repo no longer type-checks under -tags verif), so its contract can no longer be stated against the code"}, "", " ")
			os.WriteFile(path, b, 0o644)
			fmt.Printf("VIOLATION property=%s replay=%s no-failing-input-found\n  %s\n", *prop, path, e)
		} else {
			fmt.Printf("UNDECIDED obligation=%s: %s\n", name, e)
			undecided = append(undecided, name)
		}
	}
	// baseline obligations that vanished (function or clause deleted)
	present := map[string]bool{}
	for _, g := range groups {
		present[g.name] = true
	}
	var missing []string
	for _, n := range base.Properties[*prop] {
		if fk, _, _ := strings.Cut(n, "#"); rr.frameOnly[fk] != "" && !qualifies(n, rr.frameOnly[fk]) {
			continue
		}
		if !present[n] && isTopLevelClaim(n) {
			missing = append(missing, n)
		}
	}
	if len(missing) > 0 && len(rr.bindErrs) == 0 {
		sort.Strings(missing)
		violations++
		path := filepath.Join(replayDir, "missing-obligations.json")
		b, _ := json.MarshalIndent(map[string]any{"property": *prop, "obligation": "obligation-set", "missing": missing,
			"explanation": "obligations proved on the delivered tree are no longer generated (vacuity guard: the check would otherwise pass by proving less)"}, "", " ")
		os.WriteFile(path, b, 0o644)
		fmt.Printf("VIOLATION property=%s replay=%s no-failing-input-found\n  %d baseline obligations are no longer generated, e.g. %s\n", *prop, path, len(missing), missing[0])
	}
	if nObl == 0 {
		fmt.Printf("govc: no obligations generated for %s (vacuity guard)\n", *prop)
		if len(base.Properties[*prop]) > 0 && violations == 0 {
			violations++
			path := filepath.Join(replayDir, "no-obligations.json")
			os.WriteFile(path, []byte(`{"obligation":"obligation-set","explanation":"zero obligations generated"}`), 0o644)
			fmt.Printf("VIOLATION property=%s replay=%s no-failing-input-found\n", *prop, path)
		}
	}
	extra := map[string]any{}
	if *tier == "thorough" {
		v := thoroughExtras(*repo, *prop, seed, extra)
		crossCheck(rr, smtDir, seed, extra)
		if os.Getenv("GOVC_NO_SENSITIVITY") == "" && violations == 0 {
			sensitivity(*repo, *prop, extra)
		}
		violations += v
	}
	knownPrinted = append(knownPrinted, knownRuntimeLines...)
	writeEvidence(*prop, *tier, seed, rr, groups, nObl, nDis, byClass, byBackend, samples, undecided, knownPrinted, violations, extra)
	fmt.Printf("govc: property %s tier %s: %d/%d obligations discharged, %d violations, %d undecided, %d known findings, %.1fs\n", *prop, *tier, nDis, nObl, violations, len(undecided), len(knownPrinted), rr.wall)
	if violations > 0 {
		return 1
	}
	return 0
}

func statusSummary(g *oblGroup) string {
	var ss []string
	for _, o := range g.obls {
		if o.Status != "unsat" || o.Cover {
			ss = append(ss, fmt.Sprintf("path %d: %s by %s in %.1fs", o.PathIdx, o.Status, o.Solver, o.Seconds))
		}
	}
	return strings.Join(ss, "; ")
}

func writeReplay(dir, prop string, g *oblGroup, rr *runResult, smtDir string) string {
	path := filepath.Join(dir, sanitize(g.name)+".json")
	var paths []map[string]any
	for _, o := range g.obls {
		if o.Status == "unsat" && !o.Cover {
			continue
		}
		script := rr.world.Render(o.consts, o.Assume, o.Goal, nil)
		smtPath := filepath.Join(dir, sanitize(g.name)+fmt.Sprintf("_p%d.smt2", o.PathIdx))
		os.WriteFile(smtPath, []byte(script+"(check-sat)\n"), 0o644)
		paths = append(paths, map[string]any{"path": o.PathIdx, "status": o.Status, "solver": o.Solver, "seconds": o.Seconds, "solver_output": o.Output, "smt_file": smtPath, "goal": o.Goal.S})
	}
	rec := map[string]any{
		"property": prop, "obligation": g.name, "class": g.class, "source": g.obls[0].Pos, "description": g.obls[0].Desc,
		"failed_paths": paths,
		"explanation":  "this obligation was discharged on the delivered tree (it is in /verif/baseline/obligations.json) and can no longer be discharged from /repo's current source",
		"reproduce":    fmt.Sprintf("/verif/bin/govc verify -func %s -failed -v", g.obls[0].Func),
	}
	b, _ := json.MarshalIndent(rec, "", " ")
	os.WriteFile(path, b, 0o644)
	return path
}

func reportLoadFailure(prop, tier string, seed int, err error) int {
	var base Baseline
	_ = loadJSON(filepath.Join(verifDir, "baseline", "obligations.json"), &base)
	replayDir := filepath.Join(envOr("GOVC_REPLAY_DIR", filepath.Join(verifDir, "replays")), prop)
	os.MkdirAll(replayDir, 0o755)
	path := filepath.Join(replayDir, "load-failure.json")
	b, _ := json.MarshalIndent(map[string]any{"property": prop, "obligation": "repo-loads", "detail": err.Error()}, "", " ")
	os.WriteFile(path, b, 0o644)
	fmt.Printf("VIOLATION property=%s replay=%s no-failing-input-found\n", prop, path)
	return 1
}

func writeEvidence(prop, tier string, seed int, rr *runResult, groups []*oblGroup, nObl, nDis int, byClass map[string][2]int, byBackend map[string]int,
	samples []any, undecided, known []string, violations int, extra map[string]any) {
	trusted := map[string]bool{}
	var funcs []any
	var assumptions []string
	assumptions = append(assumptions,
		"govc itself (VC generator, contract reader, SMT encodings) is unverified; mitigations: must-fail corpus, executable spec functions",
		"integers are mathematical (no overflow modelling)",
		"slices and strings are value sequences; maps are values updated in place through their variable (no aliasing between two names of one slice/map)",
		"termination is verified only where a decreases clause exists",
		"slice aliasing is not modelled; a syntactic guard (S.alias-append / S.alias-mutate) covers append and in-place library mutators applied to a variable that aliases a slice the function does not own - other aliasing patterns are not detected",
		"the Go heap has no dangling references (engine-supplied): a pointer field holds nil or an allocated object, and a cell that still has the content of its heap epoch start references only objects that existed then",
		"iterators handed out by /repo functions with a `preserves` frame are assumed to respect that frame when run by the caller; the frame is proved on every returned literal of a non-trusted function (mutual recursion: assume-guarantee, sound for terminating runs)",
		"engine-derived facts need no proof obligation because they hold by construction: iteration summaries (paths that complete an iteration, Skolemised), range facts of canonical index loops, monotone counters of `for i := e0; ...; i++` loops whose body does not assign i",
	)
	for _, r := range rr.results {
		for _, e := range r.Externs {
			d := externDoc[e]
			if d != "" {
				trusted[fmt.Sprintf("extern %s: %s", e, d)] = true
			} else {
				trusted["extern "+e] = true
			}
		}
		for _, d := range r.Dropped {
			trusted["dropped call (no modelled effect, result arbitrary): "+d] = true
		}
		nf := 0
		for _, o := range r.Obls {
			if o.Func == r.Fn.Key {
				nf++
			}
		}
		f := map[string]any{"function": r.Fn.Key, "obligations": nf, "abstracted": r.Abstracted}
		if len(r.Notes) > 0 {
			f["notes"] = r.Notes
		}
		if len(r.Callees) > 0 {
			f["callees_by_contract_or_havoc"] = r.Callees
		}
		if r.Fn.Contr != nil {
			var cl []string
			for _, c := range r.Fn.Contr.Clauses {
				if c.Kind == "assume" || c.Kind == "trusted" {
					assumptions = append(assumptions, fmt.Sprintf("%s: %s %s", r.Fn.Key, c.Kind, c.Text))
				}
				if c.Kind == "note" {
					continue
				}
				p := ""
				if c.Loop > 0 {
					p = fmt.Sprintf("loop %d ", c.Loop)
				}
				if c.Lit > 0 {
					p = fmt.Sprintf("lit %d ", c.Lit) + p
				}
				cl = append(cl, p+c.Kind+" "+c.Text)
			}
			f["contract"] = cl
		}
		funcs = append(funcs, f)
	}
	var tb []string
	for t := range trusted {
		tb = append(tb, t)
	}
	sort.Strings(tb)
	tb = append([]string{"z3 4.8.12, z3 5.1.0, cvc5 1.0.3 (first unsat wins)", "go/packages + go/types of go1.24.2 (loading and typing /repo under -tags verif)"}, tb...)
	classes := map[string]any{}
	for k, v := range byClass {
		classes[k] = map[string]int{"obligations": v[0], "discharged": v[1]}
	}
	var solverSec float64
	nq := 0
	for _, o := range rr.obls {
		solverSec += o.Seconds
		nq++
	}
	cov := map[string]any{
		"obligations":              nObl,
		"discharged":               nDis,
		"checker_cmd":              fmt.Sprintf("/verif/bin/govc check -property %s -tier %s", prop, tier),
		"trusted_base":             tb,
		"samples":                  samples,
		"smt_queries":              nq,
		"functions_under_contract": funcs,
		"obligations_by_class":     classes,
		"discharged_by_backend":    byBackend,
		"solver_cpu_s":             solverSec,
		"undecided":                undecided,
		"known_findings_printed":   known,
		"explanation":              "obligation classes: S safety (bounds, nil, panic, callee requires), F functional (ensures, invariants), T termination (decreases), V vacuity guards (requires satisfiable; must NOT be unsat)",
	}
	for k, v := range extra {
		cov[k] = v
	}
	ev := map[string]any{
		"property_id": prop, "tier": tier, "seed": seed, "level": "proof", "coverage": cov,
		"assumptions": assumptions, "wall_s": rr.wall, "violations": violations,
	}
	evDir := envOr("GOVC_EVIDENCE_DIR", filepath.Join(verifDir, "evidence")) // selftest runs on mutated trees write elsewhere
	os.MkdirAll(evDir, 0o755)
	b, _ := json.MarshalIndent(ev, "", " ")
	os.WriteFile(filepath.Join(evDir, prop+".json"), b, 0o644)
}

// cmdBaseline regenerates /verif/baseline/obligations.json from the current tree (developer command, never run by checks).
func cmdBaseline(args []string) {
	repo := envOr("GOVC_REPO", "/repo")
	smtDir, _ := os.MkdirTemp("", "govc-smt-")
	defer os.RemoveAll(smtDir)
	rr, err := runProperty(repo, "", 20, 1, smtDir)
	if err != nil {
		fmt.Println(err)
		os.Exit(2)
	}
	base := Baseline{Properties: map[string][]string{}}
	groups := groupObligations(rr.obls)
	bad := 0
	// closureProps[f]: the properties whose check covers f (named in props, or reached through used contracts)
	closureProps := map[string][]string{}
	byKey := map[string]*FuncResult{}
	allProps := map[string]bool{}
	for _, r := range rr.results {
		byKey[r.Fn.Key] = r
		for _, p := range r.Fn.Contr.Props {
			allProps[p] = true
		}
	}
	for p := range allProps {
		seen := map[string]bool{}
		var stack []string
		for _, r := range rr.results {
			if contains(r.Fn.Contr.Props, p) {
				stack = append(stack, r.Fn.Key)
			}
		}
		for len(stack) > 0 {
			k := stack[len(stack)-1]
			stack = stack[:len(stack)-1]
			if seen[k] {
				continue
			}
			seen[k] = true
			closureProps[k] = append(closureProps[k], p)
			if r, ok := byKey[k]; ok {
				for _, ck := range calleeKeys(r) {
					if _, has := byKey[ck]; has && !seen[ck] {
						stack = append(stack, ck)
					}
				}
			}
		}
	}
	for _, g := range groups {
		if !g.ok {
			fmt.Printf("not in baseline (not discharged): %s (%s)\n", g.name, statusSummary(g))
			bad++
			continue
		}
		slow := false
		for _, o := range g.obls {
			if o.Seconds > 5 {
				slow = true
			}
		}
		if slow {
			fmt.Printf("warning: slow obligation %s\n", g.name)
		}
		for _, p := range closureProps[g.obls[0].Func] {
			base.Properties[p] = append(base.Properties[p], g.name)
		}
	}
	for _, e := range rr.bindErrs {
		fmt.Println("BIND-ERROR", e)
	}
	for p := range base.Properties {
		sort.Strings(base.Properties[p])
	}
	base.Locals = map[string][]localInfo{}
	for _, c := range rr.prog.Contracts {
		if c.Fn != nil {
			base.Locals[c.Fn.Key] = localsOf(c.Fn)
			if c.Fn.Decl != nil && c.Fn.Decl.Body != nil {
				own, _ := numberLoopsAndLits(c.Fn.Decl)
				tfv := &FuncVerifier{prog: rr.prog, fn: c.Fn, info: c.Fn.Pkg.TypesInfo}
				tfv.loops = own
				tfv.renumberThroughHelpers()
				if base.Loops == nil {
					base.Loops = map[string][2]int{}
				}
				base.Loops[c.Fn.Key] = [2]int{len(own), len(tfv.loops)}
			}
		}
	}
	os.MkdirAll(filepath.Join(verifDir, "baseline"), 0o755)
	b, _ := json.MarshalIndent(base, "", " ")
	os.WriteFile(filepath.Join(verifDir, "baseline", "obligations.json"), b, 0o644)
	fmt.Printf("baseline written: %d groups discharged, %d not\n", len(groups)-bad, bad)
}

// axiomConsistency asks every solver whether the declarations/axioms accumulated in w are contradictory
// (they must NOT be unsat). Returns the names of solvers that answered unsat.
func axiomConsistency(w *World, dir string) []string {
	var ds []*Def
	for _, d := range w.defs {
		ds = append(ds, d)
	}
	sort.Slice(ds, func(i, j int) bool { return ds[i].ord < ds[j].ord })
	var sb strings.Builder
	for _, d := range ds {
		sb.WriteString(d.Text)
		sb.WriteString("\n")
	}
	script := sb.String()
	// Render adds (assert (not false)); harmless
	var bad []string
	for _, sp := range solvers[:3] {
		r := runSolver(sp, script, dir, "axioms", 20, 1)
		if r.status == "unsat" {
			bad = append(bad, sp.name)
		}
	}
	return bad
}

func cmdAxioms(args []string) {
	repo := envOr("GOVC_REPO", "/repo")
	smtDir, _ := os.MkdirTemp("", "govc-smt-")
	defer os.RemoveAll(smtDir)
	prog, err := LoadProgram(repo)
	if err != nil {
		fmt.Println(err)
		os.Exit(2)
	}
	closureProg = prog
	w := NewWorld()
	for _, c := range prog.Contracts {
		if c.Fn != nil {
			VerifyFunc(w, prog, c.Fn)
		}
	}
	bad := axiomConsistency(w, smtDir)
	if len(bad) > 0 {
		fmt.Println("AXIOMS INCONSISTENT according to", bad)
		os.Exit(1)
	}
	fmt.Printf("axioms: %d definition groups, no solver derives false within 20s\n", len(w.defs))
}

// thoroughExtras: additional work of the thorough tier (bounded stand-ins, runtime contract checking); filled in replay.go.
func thoroughExtras(repo, prop string, seed int, extra map[string]any) int {
	return runBounded(repo, prop, seed, extra)
}

// isTopLevelClaim: obligations that state what a contract promises to its callers (postconditions, exceptional
// postconditions, iterator results, determinism / no-global-state analyses, lemma assertions). Only THESE must still be
// generated on a changed tree: internal obligations (loop invariants, per-site safety obligations, frame obligations
// per touched field, closure preconditions, vacuity covers) legitimately come and go when code is restructured, and
// their disappearance alone is not evidence against the property.
var topLevelRe = regexp.MustCompile(`#(F\.ensures\[\d+\]|F\.onpanic\[|F\.yields2?\[|F\.assert|F\.cbinv\[|F\.panics-allowed|R\.functional|R\.noglobals|R\.noglobalstate|R\.ordered|R\.frame-scan)`)

// isFrameObligation: frame / purity / ordering obligations (class R) and the slice-aliasing guards.
func isFrameObligation(name string) bool {
	return strings.Contains(name, "#R.") || strings.Contains(name, "#S.alias-")
}

// qualifies: the obligation counts for a property the function serves with qualifier q: `frame` = class R and aliasing
// guards; any other text = obligations whose name contains "#"+q (e.g. `C14:F.cbinv[lit4`).
func qualifies(name, q string) bool {
	if q == "frame" {
		return isFrameObligation(name)
	}
	return strings.Contains(name, "#"+q)
}

func isTopLevelClaim(name string) bool { return topLevelRe.MatchString(name) }

// crossCheck (thorough tier): every obligation discharged by one back end is put to a DIFFERENT back end as well; a `sat`
// answer there would be a disagreement between solvers (reported in evidence and on stdout, never hidden).
func crossCheck(rr *runResult, smtDir string, seed int, extra map[string]any) {
	type job struct{ o *Obligation }
	var todo []*Obligation
	for _, o := range rr.obls {
		if !o.Cover && o.Status == "unsat" && (strings.HasPrefix(o.Solver, "z3") || o.Solver == "cvc5") {
			todo = append(todo, o)
		}
	}
	var mu sync.Mutex
	agree, undecided, disagree := 0, 0, []string{}
	ch := make(chan *Obligation)
	var wg sync.WaitGroup
	for i := 0; i < 12; i++ {
		wg.Add(1)
		go func() {
			defer wg.Done()
			for o := range ch {
				other := solvers[2] // cvc5
				if o.Solver == "cvc5" {
					other = solvers[0]
				}
				script := rr.world.Render(o.consts, o.Assume, o.Goal, nil)
				id := "x_" + sanitize(o.Name) + fmt.Sprintf("_p%d", o.PathIdx)
				if len(id) > 150 {
					id = id[:150]
				}
				r := runSolver(other, script, smtDir, id, 5, seed+7)
				if r.status != "unsat" && other.name == "cvc5" {
					// cvc5 often answers unknown on the triggered encoding: try the old z3 as the independent second opinion
					r = runSolver(solvers[1], script, smtDir, id, 5, seed+7)
				}
				mu.Lock()
				switch r.status {
				case "unsat":
					agree++
				case "sat":
					disagree = append(disagree, o.Name+" ("+o.Solver+" unsat, "+r.solver+" sat)")
				default:
					undecided++
				}
				mu.Unlock()
			}
		}()
	}
	for _, o := range todo {
		ch <- o
	}
	close(ch)
	wg.Wait()
	sort.Strings(disagree)
	extra["cross_check"] = map[string]any{"obligations": len(todo), "confirmed_unsat_by_second_backend": agree, "second_backend_undecided_in_5s": undecided, "disagreements": disagree,
		"note": "each discharged path obligation re-solved by a different solver (cvc5, else z3 4.8.12; z3-new for those cvc5 discharged); only a `sat` answer is a disagreement"}
	for _, d := range disagree {
		fmt.Println("SOLVER-DISAGREEMENT " + d)
	}
}

// sensitivity (thorough tier): the seeded property-breaking changes of this property (/verif/seeded/<id>-k) are applied
// to a SCRATCH COPY of the current tree and the quick check is run there; evidence records how many are still reported.
// Informational only: it never changes the verdict on /repo and nothing in /repo is touched.
func sensitivity(repo, prop string, extra map[string]any) {
	dirs, _ := filepath.Glob(filepath.Join(verifDir, "seeded", prop+"-*"))
	sort.Strings(dirs)
	rowsBy := make([]any, len(dirs))
	var wg sync.WaitGroup
	sem := make(chan struct{}, 4) // four scratch copies at a time
	for di, d := range dirs {
		di, d := di, d
		wg.Add(1)
		sem <- struct{}{}
		go func() {
			defer func() { <-sem; wg.Done() }()
			var meta struct {
				Expect string `json:"expect"`
				Change string `json:"change"`
				Tier   string `json:"tier"`
			}
			_ = loadJSON(filepath.Join(d, "meta.json"), &meta)
			tmp, err := os.MkdirTemp("", "govc-sens-")
			if err != nil {
				return
			}
			row := map[string]any{"seeded": filepath.Base(d), "change": meta.Change}
			func() {
				defer os.RemoveAll(tmp)
				cp := exec.Command("rsync", "-a", "--exclude", ".git", repo+"/", tmp+"/repo/")
				if out, err := cp.CombinedOutput(); err != nil {
					row["result"] = "copy failed: " + truncate(string(out), 200)
					return
				}
				ap := exec.Command("git", "apply", "--unsafe-paths", "--directory="+filepath.Join(tmp, "repo"), filepath.Join(d, "patch.diff"))
				ap.Dir = "/"
				if out, err := ap.CombinedOutput(); err != nil {
					ap2 := exec.Command("patch", "-p1", "-s", "-i", filepath.Join(d, "patch.diff"))
					ap2.Dir = filepath.Join(tmp, "repo")
					if out2, err2 := ap2.CombinedOutput(); err2 != nil {
						row["result"] = "patch no longer applies to the current tree: " + truncate(string(out)+string(out2), 200)
						return
					}
				}
				self, _ := os.Executable()
				tier := "quick"
				if meta.Tier == "thorough" {
					tier = "thorough" // changes only the bounded probes of the thorough tier can see (recorded in meta.json)
				}
				row["tier"] = tier
				c := exec.Command(self, "check", "-property", prop, "-tier", tier)
				c.Env = append(os.Environ(), "GOVC_REPO="+filepath.Join(tmp, "repo"), "GOVC_EVIDENCE_DIR="+filepath.Join(tmp, "ev"), "GOVC_REPLAY_DIR="+filepath.Join(tmp, "replays"), "VERIF_TIER="+tier, "GOVC_NO_SENSITIVITY=1")
				out, _ := c.CombinedOutput()
				reported := strings.Contains(string(out), "VIOLATION property="+prop)
				var names []string
				for _, l := range strings.Split(string(out), "\n") {
					if strings.HasPrefix(l, "  failed obligation ") {
						f := strings.Fields(l)
						if len(f) >= 3 {
							names = append(names, f[2])
						}
					}
				}
				row["reported"] = reported
				row["failed_obligations"] = names
				if meta.Expect == "missed" {
					row["recorded_gap"] = true
				}
			}()
			rowsBy[di] = row
		}()
	}
	wg.Wait()
	var rows []any
	for _, r := range rowsBy {
		if r != nil {
			rows = append(rows, r)
		}
	}
	extra["sensitivity_seeded_changes"] = rows
	extra["sensitivity_note"] = "must-fail corpus: each seeded change is applied to a scratch copy of the current working tree (outside /repo, removed afterwards) and the quick check is run on the copy; informational, never part of the verdict"
}

// cmdStress: developer command — solve every obligation under several seeds and report the unstable ones.
func cmdStress(args []string) {
	fs := flag.NewFlagSet("stress", flag.ExitOnError)
	fn := fs.String("func", "", "function keys (comma separated; default all contracted)")
	n := fs.Int("n", 5, "seeds")
	limit := fs.Float64("limit", 3, "report obligations whose portfolio time exceeds this many seconds for some seed")
	fs.Parse(args)
	repo := envOr("GOVC_REPO", "/repo")
	smtDir, _ := os.MkdirTemp("", "govc-smt-")
	defer os.RemoveAll(smtDir)
	prog, err := LoadProgram(repo)
	if err != nil {
		fmt.Println(err)
		os.Exit(2)
	}
	closureProg = prog
	w := NewWorld()
	var obls []*Obligation
	for _, c := range prog.Contracts {
		if c.Fn == nil {
			continue
		}
		if *fn != "" && !contains(strings.Split(*fn, ","), c.Key) {
			continue
		}
		r := VerifyFunc(w, prog, c.Fn)
		for _, o := range r.Obls {
			if !o.Cover && o.Solver == "" {
				obls = append(obls, o)
			}
		}
	}
	worst := map[*Obligation]float64{}
	fails := map[*Obligation]int{}
	for seed := 1; seed <= *n; seed++ {
		for _, o := range obls {
			o.Status, o.Solver, o.Seconds = "", "", 0
		}
		SolveAll(w, obls, smtDir, 10, seed*101, 8)
		for _, o := range obls {
			if o.Status != "unsat" {
				fails[o]++
			}
			if o.Seconds > worst[o] {
				worst[o] = o.Seconds
			}
		}
	}
	bad := 0
	for _, o := range obls {
		if fails[o] > 0 || worst[o] > *limit {
			bad++
			fmt.Printf("UNSTABLE %s@p%d: failed %d/%d seeds, worst %.1fs  (%s)\n", o.Name, o.PathIdx, fails[o], *n, worst[o], o.Pos)
		}
	}
	fmt.Printf("stress: %d obligations x %d seeds, %d unstable\n", len(obls), *n, bad)
}
